#!/bin/sh
# For every kept seeded change: run its property's quick check against a scratch worktree with the patch applied.
# (meta.json may name another check in "check" when the change lies in that check's territory.)
# Prints one line per seed: DETECTED / MISSED / BROKEN (+ the reason).  Usage: seed_sweep.sh [prefix]
cd "$(dirname "$0")" || exit 2
for d in seeded/${1:-}*/; do
  id=$(basename "$d")
  prop=$(/venv/bin/python -c "import json;m=json.load(open('$d/meta.json'));print(m.get('check') or m['property'])")
  out=$(./seedtest.sh "$(pwd)/$d/patch.diff" "$prop" 2>&1)
  if echo "$out" | grep -q '^VIOLATION'; then v=DETECTED; elif echo "$out" | grep -q BROKEN; then v="BROKEN $(echo "$out" | grep BROKEN | head -1 | cut -c1-200)"; else v="MISSED $(echo "$out" | tail -1 | cut -c1-120)"; fi
  echo "$id $prop $v"
done
