#!/bin/sh
# usage: seedtest.sh <patch.diff> <check id> [<check id> ...]   -- runs the checks (of the tree this script lives in)
# against a scratch worktree of /repo with the patch applied; /repo itself is not touched
set -e
HERE="$(cd "$(dirname "$0")" && pwd)"
P="$1"; shift
WT=/tmp/wt_seedtest_$$
git -C /repo worktree add -q --detach "$WT" ${BASE:-HEAD}
trap 'git -C /repo worktree remove --force "$WT" >/dev/null 2>&1' EXIT
git -C "$WT" apply "$P"
for c in "$@"; do
  VERIF_REPO="$WT" VERIF_EVIDENCE_DIR=/tmp/evidence_seed_$$ VERIF_REPLAY_DIR=/tmp/replays_seed_$$ "$HERE/check" "$c" --tier ${TIER:-quick} 2>&1 | grep -E "^(VIOLATION|KNOWN|BROKEN|C[0-9]+ tier)" | cut -c1-220 | awk '!seen[$1 $2]++ || /tier=/' | head -6
done
rm -rf /tmp/evidence_seed_$$ /tmp/replays_seed_$$
