#!/bin/sh
# run every check of MANIFEST.json (tier $1, default quick); prints one line per check and the exit code
cd "$(dirname "$0")" || exit 2
TIER=${1:-quick}
for c in C01 C02 C03 C04 C05 C06 C07 C08 C09 C10 C11 C12 C13 C14 C15 C16 C17 C18 C19 C20; do
  OUT=$(./check $c --tier $TIER 2>&1); RC=$?
  echo "$c rc=$RC $(echo "$OUT" | grep -c '^KNOWN-FINDING') known | $(echo "$OUT" | tail -1 | cut -c1-170)"
done
