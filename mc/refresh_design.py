"""Regenerates the seeded-changes table inside DESIGN.md (between the SEEDTABLE markers)."""
import io
import os
import contextlib
from mc import seed_table
ROOT = os.path.dirname(os.path.dirname(os.path.abspath(__file__)))
buf = io.StringIO()
with contextlib.redirect_stdout(buf):
    seed_table.main()
p = os.path.join(ROOT, 'DESIGN.md')
s = open(p).read()
a = s.index('<!-- SEEDTABLE:BEGIN -->') + len('<!-- SEEDTABLE:BEGIN -->')
b = s.index('<!-- SEEDTABLE:END -->')
open(p, 'w').write(s[:a] + '\n' + buf.getvalue() + s[b:])
print('DESIGN.md seed table refreshed')
