"""C15 -- interact(): a transparent two-way pipe until the escape character.

Two harness-owned ptys: the inner one is the child (harness on the slave side), the
outer one is the user's terminal (STDIN_FILENO/STDOUT_FILENO of the spawn object point
at its slave; the harness types and watches the screen).  Keystroke pieces, child
output chunks and the ending (escape typed / child exits) are peer actions whose
placement between interact()'s system calls is explored."""
import itertools
import sys
import termios

import pexpect
from pexpect import EOF, TIMEOUT

from mc import env as E
from mc.explore import dfs, Chooser, Cut
from mc.runner import Acc

PROPERTY = 'C15'
RULE = ('case = (keystroke stream, its splitting into reads, merge order with the child output chunks, configuration, placement of '
        'the peer actions among interact()\'s system calls (deviation bound)); non-trivial = an escape character is typed, or a '
        'filter is installed, or output and keystrokes interleave')
ASSUMPTIONS = ['keystrokes and child output are injected into harness-side buffers served to the library\'s os.read (pty delivery is asynchronous); '
               'what the library writes is recorded at its os.write calls and cross-checked once per execution against the real outer pty',
               'schedule deviation bound 1 (quick) / 2 (thorough) over the placement of peer actions']
EXHAUSTIVE = False      # complete only within the deviation bound, see BOUND_NOTE
BOUND_NOTE = 'all schedules with at most 1 (quick) / 2 (thorough) non-default placements of peer actions are enumerated completely'
REQUIRED_FLAGS = {'second_interact': 1, 'escape_first': 1, 'escape_middle': 1, 'escape_repeated': 1, 'exit_ending': 1, 'filters': 1, 'pending_flush': 1,
                  'interleaved': 1, 'several_short_writes_for_one_piece': 1, 'burst_of_exactly_the_read_size': 1, 'filter_produces_escape': 1}

ESC = b'\x1d'
ALPHA = [b'a', ESC, b'\xc3', b'\xa9', b'\r']
CHILD_CHUNKS = [b'x\xc3', b'\xa9y']
CHILD_CHUNKS_X = [b'x', b'xy']          # with the stripping output filter the first read filters down to b''


class FakeStdout(object):
    """Stands in for sys.stdout while interact() flushes the pending buffer."""

    def __init__(self):
        import io
        self.buffer = io.BytesIO()
        self.text = []

    def write(self, s):
        self.text.append(s)
        return len(s)

    def flush(self):
        pass


class Rec(object):
    def __init__(self, name, events):
        self.name, self.events = name, events

    def write(self, s):
        self.events.append((self.name, 'w', s))

    def flush(self):
        self.events.append((self.name, 'f', None))


def upper_out(b):
    return b.replace(b'x', b'X').replace(b'y', b'Y')


def dup_in(b):
    return b.replace(b'a', b'A')


def strip_out(b):          # may return b'' for a whole read
    return b.replace(b'x', b'')


def expand_in(b):          # length-changing (longer)
    return b.replace(b'\r', b'\r\n')


def shrink_in(b):          # length-changing (shorter)
    return b.replace(b'a', b'')


def swap_in(b):            # produces and rewrites the escape byte: 'a' ends the session, the raw escape key is an ordinary 'a'
    return b.replace(b'a', b'\x00').replace(ESC, b'a').replace(b'\x00', ESC)


IN_FILTERS = {'in': dup_in, 'both': dup_in, 'expand-in': expand_in, 'shrink-in': shrink_in, 'swap-in': swap_in}
OUT_FILTERS = {'out': upper_out, 'both': upper_out, 'strip-out': strip_out}


CONFIGS = []
for filt in ('none', 'in', 'out', 'both'):
    for mode in ('bytes', 'utf-8'):
        CONFIGS.append(dict(filt=filt, mode=mode, esc='default', poll=False, pending=False))
CONFIGS += [dict(filt='strip-out', mode='bytes', esc='default', poll=False, pending=False),
            dict(filt='expand-in', mode='bytes', esc='default', poll=False, pending=False),
            dict(filt='shrink-in', mode='bytes', esc='default', poll=True, pending=False),
            dict(filt='none', mode='bytes', esc='none', poll=False, pending=False),
            dict(filt='none', mode='bytes', esc='q', poll=False, pending=False),
            dict(filt='none', mode='bytes', esc='default', poll=True, pending=False),
            dict(filt='none', mode='bytes', esc='default', poll=False, pending=True),
            dict(filt='both', mode='utf-8', esc='default', poll=True, pending=True),
            dict(filt='in', mode='utf-8', esc='q', poll=False, pending=True),
            dict(filt='swap-in', mode='bytes', esc='default', poll=False, pending=False),
            # the child takes one byte per write (a nearly full input queue): every longer piece needs several short writes
            dict(filt='none', mode='bytes', esc='default', poll=False, pending=False, write_cap=1),
            dict(filt='expand-in', mode='bytes', esc='default', poll=True, pending=False, write_cap=1),
            # bursts that end exactly on interact()'s read size, in both directions
            dict(filt='none', mode='bytes', esc='default', poll=False, pending=False, burst=1000),
            dict(filt='none', mode='bytes', esc='default', poll=True, pending=False, burst=1000),
            dict(filt='none', mode='bytes', esc='default', poll=False, pending=False, twice=True),
            dict(filt='both', mode='utf-8', esc='default', poll=True, pending=True, twice=True)]


def bounds(tier):
    return dict(alphabet=[repr(a) for a in ALPHA], max_keys=3 if tier == 'quick' else 4, child_chunks=[repr(c) for c in CHILD_CHUNKS],
                configs=CONFIGS, endings=['escape', 'exit'], schedule_deviation_bound=1 if tier == 'quick' else 2)


def is_base(i):
    return i in (0, 1) or CONFIGS[i]['filt'] in ('strip-out', 'expand-in', 'shrink-in', 'swap-in') or CONFIGS[i].get('write_cap')


def tasks(tier):
    out = []
    for i, cfg in enumerate(CONFIGS):
        for ending in ('escape', 'exit'):
            if is_base(i):
                for part in range(4):      # the configurations that get the full stream space are split four ways
                    out.append(dict(cfg=i, ending=ending, tier=tier, logs=False, part=part, parts=4))
            else:
                out.append(dict(cfg=i, ending=ending, tier=tier, logs=False))
    return out


def run_interact(ch, cfg, pieces, merge, ending, logs=False):
    """pieces: list of keystroke byte strings (each typed as one burst); merge: tuple saying, for each
    position in the merged script, 'k' (next keystroke piece) or 'c' (next child chunk)."""
    E.install()
    env = E.Env(ch)
    obs = {}
    viol = None
    sp = None
    saved_stdout = sys.stdout
    try:
        enc = None if cfg['mode'] == 'bytes' else cfg['mode']
        sp = E.pty_spawn(env, encoding=enc, use_poll=cfg['poll'], timeout=5, spawn_kw=dict(raw=True))
        sp.delaybeforesend = None
        om, os_ = env.openpty(raw=False)          # the user's terminal (cooked, like a real one)
        env.hbuf[os_] = bytearray()               # keystrokes are served from the harness-side buffer
        del env.hbuf[om]
        sp.STDIN_FILENO = os_
        sp.STDOUT_FILENO = os_
        events = []
        if logs:
            sp.logfile = Rec('logfile', events)
            sp.logfile_read = Rec('logfile_read', events)
            sp.logfile_send = Rec('logfile_send', events)
        escchar = {'default': chr(29), 'none': None, 'q': 'q'}[cfg['esc']]
        escbyte = None if escchar is None else escchar.encode('latin-1')
        S = (lambda s: s.encode('ascii')) if enc is None else (lambda s: s)
        pending = S('PEND') if cfg['pending'] else S('')
        if cfg['pending']:
            sp.buffer = pending
        if cfg.get('write_cap'):
            env.write_cap[sp.hs_master] = cfg['write_cap']
        mode_before = termios.tcgetattr(os_)
        fake = FakeStdout()
        sys.stdout = fake
        sp.stdout = fake
        if enc is not None:
            sp.write_to_stdout = fake.write
        # peer script
        ki = ci = 0
        typed = b''
        child_out = []
        for m in merge:
            if m == 'k':
                p = pieces[ki]
                ki += 1
                typed += p
                env.add('fn', (lambda d=p: env.hbuf[os_].extend(d)))
            else:
                c = ([b'x' * cfg['burst'], b'yz'] if cfg.get('burst') else CHILD_CHUNKS_X if cfg['filt'] == 'strip-out' else CHILD_CHUNKS)[ci]
                ci += 1
                child_out.append(c)
                env.add('w', c, fd=sp.hs_slave)
        if ending == 'escape':
            if escbyte is not None:
                # the key that ends the session: the escape character, or what the input filter turns into it
                endkey = b'a' if cfg['filt'] == 'swap-in' else escbyte
                typed += endkey + b'zz'
                env.add('fn', (lambda: env.hbuf[os_].extend(endkey + b'zz')))
            else:
                env.add('exit', (sp.hs_proc, 0))
        else:
            env.add('exit', (sp.hs_proc, 0))
        in_f = IN_FILTERS.get(cfg['filt'])
        out_f = OUT_FILTERS.get(cfg['filt'])
        try:
            sp.interact(escape_character=escchar, input_filter=in_f, output_filter=out_f)
            ret = 'returned'
        except E.Hang:
            raise
        except Cut:
            raise
        except E.HarnessError:
            raise
        except BaseException as e:   # noqa
            ret = 'exc %r' % (e,)
        sys.stdout = saved_stdout
        mode_after = termios.tcgetattr(os_)
        screen = bytes(env.sent.get(os_, b''))
        flushed = fake.buffer.getvalue() if enc is None else ''.join(fake.text).encode(enc)
        to_child = bytes(env.sent.get(sp.hs_master, b''))
        n_unfired = sum(1 for a in env.script if a.kind == 'w')
        fired = b''.join(child_out[:len(child_out) - n_unfired])
        left = bytes(env.hbuf.get(sp.hs_master, b''))
        consumed_out = fired[:len(fired) - len(left)]
        keys_left = bytes(env.hbuf.get(os_, b''))
        keys_unfired = sum(1 for a in env.script if a.kind == 'fn')
        obs = dict(ret=ret, screen=screen, flushed=flushed, to_child=to_child, typed=typed, events=events,
                   consumed_out=consumed_out, keys_left=keys_left)
        # ---- oracle --------------------------------------------------------
        if ret != 'returned':
            viol = ('exception', 'interact() ended with %s' % ret)
        elif mode_after != mode_before:
            viol = ('termios', 'terminal mode not restored')
        else:
            want_flush = pending if enc is None else pending.encode(enc)
            if flushed != want_flush:
                viol = ('pending-flush', 'pending buffer %r was flushed to stdout as %r' % (want_flush, flushed))
            want_screen = out_f(consumed_out) if out_f else consumed_out
            if viol is None and screen != want_screen:
                viol = ('screen', 'user saw %r, the child wrote %r (filter %s)' % (screen, consumed_out, cfg['filt']))
            # keystrokes: everything read before the first escape character, nothing after
            read_keys = typed[:len(typed) - len(keys_left)] if keys_left else typed
            if keys_unfired:
                # pieces not yet typed: only the fired prefix was available
                n_fired = len(pieces) - (keys_unfired - (1 if (ending == 'escape' and escbyte is not None) else 0))
                fired_typed = b''.join(pieces[:max(0, n_fired)])
                read_now = fired_typed[:len(fired_typed) - len(keys_left)] if keys_left else fired_typed
                seen_esc = escbyte is not None and escbyte in (in_f(read_now) if in_f else read_now)
                read_keys = None
            else:
                seen_esc = escbyte is not None and escbyte in (in_f(read_keys) if in_f else read_keys)
            # interact() may only return because the escape character was typed or the child is gone
            if viol is None and not seen_esc and sp.hs_proc.alive():
                viol = ('early-return', 'interact() returned although no escape character was typed and the child is alive '
                        '(screen %r, typed so far %r)' % (screen, typed))
            if viol is None and read_keys is not None:
                filt_keys = in_f(read_keys) if in_f else read_keys
                if escbyte is not None and escbyte in filt_keys:
                    want_child = filt_keys[:filt_keys.index(escbyte)]
                    child_gone = not sp.hs_proc.alive()
                    if (to_child != want_child) if not child_gone else (not want_child.startswith(to_child)):
                        viol = ('keys-escape', 'typed %r (escape %r): child received %r, expected %r'
                                % (read_keys, escbyte, to_child, want_child))
                else:
                    # ended by child exit: what was delivered must be a prefix of what was typed
                    if not filt_keys.startswith(to_child):
                        viol = ('keys', 'typed %r, child received %r' % (read_keys, to_child))
                    elif ending == 'escape' and escbyte is None and False:
                        pass
        obs['escaped'] = bool(escbyte and escbyte in typed)
        # ---- a second interact() on the same object (state that outlives the first call) -----------
        if viol is None and cfg.get('twice') and escbyte is not None and sp.hs_proc.alive() and not env.script:
            del env.hbuf[os_][:]                 # what was typed after the escape is gone with the first session
            n_screen, n_child = len(env.sent.get(os_, b'')), len(env.sent.get(sp.hs_master, b''))
            left0 = len(env.hbuf.get(sp.hs_master, b''))
            # the program changes the terminal settings between the two sessions: THOSE must be restored
            mid = termios.tcgetattr(os_)
            mid[3] &= ~termios.ECHO
            mid[6][termios.VINTR] = b'\x02'
            termios.tcsetattr(os_, termios.TCSANOW, mid)
            mode_before = termios.tcgetattr(os_)
            env.add('fn', (lambda: env.hbuf[os_].extend(b'b\r')))
            # the child goes on where it stopped: what is left of its first output (so that a character cut by the
            # end of the first session is completed, the stream stays valid text), then new output
            chunk_list = ([b'x' * cfg['burst'], b'yz'] if cfg.get('burst') else CHILD_CHUNKS_X if cfg['filt'] == 'strip-out' else CHILD_CHUNKS)
            second_out = b''.join(chunk_list[ci:]) + b'wv'
            env.add('w', second_out, fd=sp.hs_slave)
            env.add('fn', (lambda: env.hbuf[os_].extend(escbyte)))
            sys.stdout = fake
            try:
                sp.interact(escape_character=escchar, input_filter=in_f, output_filter=out_f)
                ret2 = 'returned'
            except (E.Hang, Cut, E.HarnessError):
                raise
            except BaseException as e:   # noqa
                ret2 = 'exc %r' % (e,)
            sys.stdout = saved_stdout
            screen2 = bytes(env.sent.get(os_, b''))[n_screen:]
            child2 = bytes(env.sent.get(sp.hs_master, b''))[n_child:]
            fired2 = second_out if not any(a.kind == 'w' for a in env.script) else b''
            avail2 = (b'x' * 0) + bytes(consumed_out[:0]) + fired2
            unread2 = len(env.hbuf.get(sp.hs_master, b''))
            want_screen2 = (bytes(left) + fired2)[:len(bytes(left) + fired2) - unread2]
            if out_f:
                want_screen2 = out_f(want_screen2)
            want_child2 = in_f(b'b\r') if in_f else b'b\r'
            obs['second'] = dict(ret=ret2, screen=screen2, to_child=child2)
            if ret2 != 'returned':
                viol = ('second-exception', 'second interact() ended with %s' % ret2)
            elif termios.tcgetattr(os_) != mode_before:
                viol = ('second-termios', 'terminal mode not restored after the second interact()')
            elif screen2 != want_screen2:
                viol = ('second-screen', 'second interact(): user saw %r, expected %r' % (screen2, want_screen2))
            elif child2 != want_child2 and not any(a.kind == 'fn' for a in env.script):
                viol = ('second-keys', 'second interact(): child received %r, expected %r' % (child2, want_child2))
    except E.Hang as h:
        viol = ('hang', 'interact() never returns: %s' % h)
    except Cut as c:
        viol = ('horizon', str(c))
    finally:
        sys.stdout = saved_stdout
        if sp is not None:
            E.finalize_pty(sp)
        env.finish()
    return obs, viol


def cfg_tag(cfg):
    return ('+write-cap' if cfg.get('write_cap') else '') + ('+burst' if cfg.get('burst') else '')


def key_streams(maxn):
    for n in range(0, maxn + 1):
        for t in itertools.product(ALPHA, repeat=n):
            yield b''.join(t), t


def merges(nk, nc):
    for pos in itertools.combinations(range(nk + nc), nc):
        yield tuple('c' if i in pos else 'k' for i in range(nk + nc))


def scripts(tier, base=True, cfg=None):
    q = tier == 'quick'
    maxn = (2 if base else 1) if q else (3 if base else 2)
    extra = [(ESC, b'a', ESC), (b'a', ESC, b'a', ESC), (ESC, ESC), (b'\xc3', b'\xa9', ESC, b'a'), (b'a', b'\r', b'a', b'a')]
    if cfg and cfg.get('burst'):
        extra += [(b'a' * cfg['burst'],), (b'a' * cfg['burst'], b'\r')]
    seen = set()
    streams = [t for _, t in key_streams(maxn)] + extra
    for t in streams:
        if t in seen:
            continue
        seen.add(t)
        n = len(t)
        for mask in range(1 << max(0, n - 1)):
            pieces = []
            cur = b''
            for i, b in enumerate(t):
                cur += b
                if i == n - 1 or (mask >> i) & 1:
                    pieces.append(cur)
                    cur = b''
            for nc in ((0, 2) if q else (0, 1, 2)):
                for mg in merges(len(pieces), nc):
                    yield t, pieces, mg


def run_task(task):
    acc = Acc()
    cfg = CONFIGS[task['cfg']]
    bound = 1 if task['tier'] == 'quick' else 2
    for k_, (t, pieces, mg) in enumerate(scripts(task['tier'], base=is_base(task['cfg']), cfg=cfg)):
        if 'part' in task and k_ % task['parts'] != task['part']:
            continue
        def run(ch):
            return run_interact(ch, cfg, pieces, mg, task['ending'])
        for ch, (obs, viol) in dfs(run, bound=bound):
            acc.execs += 1
            acc.transitions += len(mg) + 1
            esc = {'default': ESC, 'none': None, 'q': b'q'}[cfg['esc']]
            stream = b''.join(t)
            nt = cfg['filt'] != 'none' or ('c' in mg and 'k' in mg)
            if esc and esc in stream:
                nt = True
                if stream.startswith(esc):
                    acc.flags['escape_first'] += 1
                elif not stream.endswith(esc):
                    acc.flags['escape_middle'] += 1
                if stream.count(esc) > 1:
                    acc.flags['escape_repeated'] += 1
            if task['ending'] == 'exit':
                acc.flags['exit_ending'] += 1
            if cfg['filt'] != 'none':
                acc.flags['filters'] += 1
            if cfg['pending']:
                acc.flags['pending_flush'] += 1
            if obs.get('second'):
                acc.flags['second_interact'] += 1
            if cfg.get('write_cap') and max(len(p_) for p_ in pieces + [b'']) >= 3:
                acc.flags['several_short_writes_for_one_piece'] += 1
            if cfg.get('burst') and 'c' in mg:
                acc.flags['burst_of_exactly_the_read_size'] += 1
            if cfg['filt'] == 'swap-in':
                acc.flags['filter_produces_escape'] += 1
            if 'c' in mg and 'k' in mg:
                acc.flags['interleaved'] += 1
            if nt:
                acc.nontrivial += 1
            acc.outcomes['%s/%s' % ('viol:' + viol[0] if viol else 'ok', 'esc' if obs.get('escaped') else 'noesc')] += 1
            if viol:
                acc.violation('%s:%s%s:esc=%s:%s' % (cfg['mode'], cfg['filt'], cfg_tag(cfg), cfg['esc'], viol[0]),
                              'keys %r pieces %r merge %r ending %s: %s' % (stream, pieces, mg, task['ending'], viol[1]),
                              dict(task=task, pieces=pieces, merge=list(mg), choices=ch.choices()))
    acc.states += 1
    acc.sample(dict(cfg=cfg, keys=repr(b'a' + ESC + b'a' + ESC), pieces=[repr(b'a' + ESC), repr(b'a' + ESC)], merge=['k', 'c', 'k', 'c']))
    return acc


def replay(spec):
    from mc.explore import unjson
    spec = unjson(spec)
    task = spec['task']
    cfg = CONFIGS[task['cfg']]
    obs, viol = run_interact(Chooser(spec['choices']), cfg, spec['pieces'], tuple(spec['merge']), task['ending'])
    out = {'observation': {k: repr(v) for k, v in obs.items()}, 'violation': None}
    if viol:
        out['violation'] = {'key': '%s:%s%s:esc=%s:%s' % (cfg['mode'], cfg['filt'], cfg_tag(cfg), cfg['esc'], viol[0]), 'msg': viol[1]}
    return out
