"""./check <ID> [--tier quick|thorough] [--replay path] [--jobs N]

Runs one property check: partitions its finite exploration space into tasks,
explores each task exhaustively in a worker process, merges the counters,
confirms every violation by replaying it twice, matches it against
known_findings.jsonl, writes evidence/<ID>.json and prints the verdict lines.

exit 0: property held on everything explored (KNOWN-FINDING lines allowed)
exit 1: VIOLATION property=<id> replay=<path>
exit 2: the check itself is broken (vacuous exploration, nondeterminism, crash)
"""
import sys
import os

ROOT = os.path.dirname(os.path.dirname(os.path.abspath(__file__)))
REPO = os.environ.get('VERIF_REPO', '/repo')
sys.path.insert(0, REPO)
sys.path.insert(0, ROOT)
os.environ.setdefault('PYTHONHASHSEED', '0')
os.environ['PEXPECT_VERIF'] = '1'

import argparse
import collections
import importlib
import json
import multiprocessing
import random
import time
import traceback
import warnings

warnings.filterwarnings('ignore')

from mc.explore import digest, jsonable

MODULES = {
    'C01': 'mc.c01_conservation', 'C02': 'mc.c02_match', 'C03': 'mc.c03_naive',
    'C04': 'mc.c04_markers', 'C05': 'mc.c05_deadline', 'C06': 'mc.c06_transport',
    'C07': 'mc.c07_decode', 'C08': 'mc.c08_send', 'C09': 'mc.c09_status',
    'C10': 'mc.c10_lifecycle', 'C11': 'mc.c11_logging', 'C12': 'mc.c12_run',
    'C13': 'mc.c13_launch', 'C14': 'mc.c14_async', 'C15': 'mc.c15_interact',
    'C16': 'mc.c16_repl', 'C17': 'mc.c17_pxssh', 'C18': 'mc.c18_ansi',
    'C19': 'mc.c19_screen', 'C20': 'mc.c20_forms',
}


class Acc(object):
    """Per-task accumulator; merged by the runner."""
    MAXV = 3          # stored violations per distinct key
    MAXS = 3          # samples

    def __init__(self):
        self.execs = 0            # executions of the real code
        self.states = 0           # distinct canonical states (or cases) seen
        self.transitions = 0
        self.nontrivial = 0       # distinct non-trivial cases (by module RULE)
        self.outcomes = collections.Counter()
        self.flags = collections.Counter()
        self.samples = []
        self.violations = {}      # key -> list of violation dicts
        self.nviol = 0
        self.caps = []
        self.extra = {}

    def sample(self, s):
        if len(self.samples) < self.MAXS:
            self.samples.append(jsonable(s))

    def violation(self, key, msg, replay):
        self.nviol += 1
        lst = self.violations.setdefault(key, [])
        if len(lst) < self.MAXV:
            lst.append({'key': key, 'msg': msg, 'replay': jsonable(replay)})

    def pack(self):
        return dict(execs=self.execs, states=self.states,
                    transitions=self.transitions, nontrivial=self.nontrivial,
                    outcomes=dict(self.outcomes), flags=dict(self.flags),
                    samples=self.samples, violations=self.violations,
                    nviol=self.nviol, caps=self.caps, extra=self.extra)


_mod = None


def _work(task):
    try:
        t0 = time.time()
        acc = _mod.run_task(task)
        d = acc.pack()
        d['wall'] = time.time() - t0
        d['task'] = task
        return d
    except BaseException:
        return {'crash': traceback.format_exc(), 'task': task}


def scrub(o):
    """JSON form with memory addresses removed (they differ between two runs of the same trace)."""
    import re
    if isinstance(o, dict) and '_timing' in o:
        # details a check declares to depend on free-running peer threads (never the verdict or its key)
        o = {k: v for k, v in o.items() if k != '_timing'}
    return re.sub(r'0x[0-9a-fA-F]{6,}', '0x', json.dumps(jsonable(o), sort_keys=True, default=repr))


def task_in_fresh_process(task):
    """Run one task in a fresh forked process; returns the set of violation keys (None on crash)."""
    ctx = multiprocessing.get_context('fork')
    with ctx.Pool(1) as pool:
        try:
            r = pool.apply(_work, (task,))
        except Exception:
            return None
    if 'crash' in r:
        return None
    return set(r['violations'])


def load_known(prop):
    known, fixed = {}, []
    path = os.path.join(ROOT, 'known_findings.jsonl')
    if os.path.exists(path):
        for line in open(path):
            line = line.strip()
            if not line or line.startswith('#'):
                continue
            if line.startswith('fixed:'):
                fixed.append(line)
                continue
            rec = json.loads(line)
            if rec.get('property') == prop and rec.get('status', 'known') == 'known':
                known[rec['key']] = rec
    return known, fixed


def main(argv=None):
    global _mod
    ap = argparse.ArgumentParser()
    ap.add_argument('prop')
    ap.add_argument('--tier', default=os.environ.get('VERIF_TIER', 'quick'))
    ap.add_argument('--replay')
    ap.add_argument('--jobs', type=int, default=int(os.environ.get('VERIF_JOBS', '16')))
    ap.add_argument('--only', help='substring filter on task repr (debug)')
    args = ap.parse_args(argv)
    prop = args.prop
    seed = int(os.environ.get('VERIF_SEED', '0'))
    import pexpect
    if not os.path.realpath(pexpect.__file__).startswith(os.path.realpath(REPO) + os.sep):
        print('BROKEN-CHECK: pexpect imported from %s, not %s' % (pexpect.__file__, REPO))
        return 2
    _mod = importlib.import_module(MODULES[prop])

    if args.replay:
        spec = json.load(open(args.replay))
        if isinstance(spec['replay'], dict) and spec['replay'].get('task_level'):
            # history-dependent violation: replayed by re-running its whole task in a fresh process
            keys = task_in_fresh_process(spec['replay']['task'])
            hit = keys is not None and spec['key'] in keys
            print(json.dumps({'task_level': True, 'keys': sorted(keys or [])}, indent=1))
            if hit:
                print('VIOLATION property=%s replay=%s' % (prop, args.replay))
                return 1
            return 0
        out = _mod.replay(spec['replay'])
        print(json.dumps(jsonable(out), indent=1))
        if out.get('violation'):
            print('VIOLATION property=%s replay=%s' % (prop, args.replay))
            return 1
        return 0

    t0 = time.time()
    tasks = _mod.tasks(args.tier)
    if args.only:
        tasks = [t for t in tasks if args.only in repr(t)]
    random.Random(seed).shuffle(tasks)
    results = []
    jobs = max(1, min(args.jobs, len(tasks)))
    if jobs == 1:
        results = [_work(t) for t in tasks]
    else:
        ctx = multiprocessing.get_context('fork')
        limit = float(os.environ.get('VERIF_TIMEOUT', '900' if args.tier == 'quick' else '14400'))
        with ctx.Pool(jobs) as pool:
            it = pool.imap_unordered(_work, tasks, chunksize=1)
            try:
                for _ in range(len(tasks)):
                    results.append(it.next(timeout=max(1.0, limit - (time.time() - t0))))
            except multiprocessing.TimeoutError:
                done = [json.dumps(jsonable(r['task']), sort_keys=True) for r in results]
                left = [t for t in tasks if json.dumps(jsonable(t), sort_keys=True) not in done]
                print('BROKEN-CHECK: watchdog: %d of %d tasks did not finish within %.0fs (possible livelock '
                      'in the code under test or in the harness); unfinished e.g. %r'
                      % (len(left), len(tasks), limit, left[:2]))
                sys.stdout.flush()
                # Pool.terminate() can itself dead-lock on workers stuck in a system call: kill and leave
                for w in list(getattr(pool, '_pool', [])):
                    try:
                        os.kill(w.pid, 9)
                    except OSError:
                        pass
                os._exit(2)
    results.sort(key=lambda r: json.dumps(jsonable(r['task']), sort_keys=True))
    crashes = [r for r in results if 'crash' in r]
    if crashes:
        print('BROKEN-CHECK: task crashed: %r\n%s' % (crashes[0]['task'], crashes[0]['crash']))
        return 2

    tot = Acc()
    viol = {}
    for r in results:
        tot.execs += r['execs']
        tot.states += r['states']
        tot.transitions += r['transitions']
        tot.nontrivial += r['nontrivial']
        tot.outcomes.update(r['outcomes'])
        tot.flags.update(r['flags'])
        tot.nviol += r['nviol']
        tot.caps += r['caps']
        for k, v in r['extra'].items():
            if isinstance(v, (int, float)):
                tot.extra[k] = tot.extra.get(k, 0) + v
            else:
                tot.extra.setdefault(k, v)
        for s in r['samples']:
            if len(tot.samples) < 6:
                tot.samples.append(s)
        for k, lst in r['violations'].items():
            viol.setdefault(k, []).extend(lst)

    known, _fixed = load_known(prop)
    rc = 0
    lines = []
    REPLAYS = os.environ.get('VERIF_REPLAY_DIR', os.path.join(ROOT, 'replays'))
    os.makedirs(os.path.join(REPLAYS, prop), exist_ok=True)
    new_keys = []
    for key in sorted(viol):
        # shortest replay first = easiest to explain
        v = min(viol[key], key=lambda x: len(json.dumps(x['replay'])))
        # confirm: replay twice, must reproduce identically
        try:
            o1 = _mod.replay(v['replay'])
            o2 = _mod.replay(v['replay'])
        except Exception:
            print('BROKEN-CHECK: replay of %s crashed\n%s' % (key, traceback.format_exc()))
            return 2
        task_level = False
        if scrub(o1) != scrub(o2) or not o1.get('violation') or o1['violation'].get('key') != key:
            # Not reproducible in isolation.  Either the harness is nondeterministic (broken check) or the
            # code under test keeps state across objects (e.g. a module-level buffer shared by instances):
            # then the violation depends on the executions that came before it.  Decide by re-running the
            # whole task twice, each time in a fresh process: if the same key shows up both times the
            # violation is real and deterministic at task level.
            task = v['replay'].get('task') if isinstance(v['replay'], dict) else None
            again = [task_in_fresh_process(task), task_in_fresh_process(task)] if task is not None else [None, None]
            if all(a is not None and key in a for a in again):
                task_level = True
                o1 = {'violation': {'key': key, 'msg': v['msg']}, 'task_level': True}
            else:
                print('BROKEN-CHECK: violation %s did not reproduce deterministically (first seen as: %s)' % (key, v['msg'][:500]))
                print(json.dumps(jsonable([o1, o2]))[:2000])
                return 2
        if task_level:
            v = dict(v, replay=dict(v['replay'], task_level=True, key=key))
        path = os.path.join(REPLAYS, prop, digest([key, v['replay']]) + '.json')
        with open(path, 'w') as f:
            json.dump({'property': prop, 'key': key, 'msg': v['msg'],
                       'replay': v['replay'], 'observation': jsonable(o1)}, f, indent=1)
        if key in known:
            lines.append('KNOWN-FINDING: property=%s %s [%s]' % (prop, known[key].get('what', key), key))
        else:
            new_keys.append(key)
            lines.append('VIOLATION property=%s replay=%s' % (prop, path))
            lines.append('  key=%s :: %s' % (key, v['msg'][:600]))
            rc = 1

    # every listed finding gets its line; one that this tier's bounds did not reach says so
    for key in sorted(known):
        if key not in viol and not args.only:
            lines.append('KNOWN-FINDING: property=%s %s [%s] (listed; outside the bounds of the %s tier, not re-observed in this run)'
                         % (prop, known[key].get('what', key), key, args.tier))

    # vacuity guard
    req = getattr(_mod, 'REQUIRED_FLAGS', {})
    vac = [(f, n, tot.flags.get(f, 0)) for f, n in req.items() if tot.flags.get(f, 0) < n]
    if len(tot.outcomes) < 2:
        vac.append(('distinct_outcomes', 2, len(tot.outcomes)))
    wall = time.time() - t0
    ev = {
        'property_id': prop, 'tier': args.tier, 'seed': seed,
        'level': 'model_checking',
        'coverage': {
            'states': tot.states, 'transitions': tot.transitions,
            'traces_validated_against_impl': tot.execs,
            'samples': tot.samples or ['(none)'],
            'evaluations': tot.execs,
            'distinct_nontrivial': tot.nontrivial,
            'rule': getattr(_mod, 'RULE', ''),
            'states_meaning': getattr(_mod, 'STATES_MEANING',
                                      'stateless exploration: "states" counts the configurations whose execution space was '
                                      'enumerated completely (within the stated bound); "transitions" counts library calls / '
                                      'scheduling steps executed; "traces_validated_against_impl" counts complete executions of the real code'),
            'exhaustive': not tot.caps and getattr(_mod, 'EXHAUSTIVE', True),
            'bounds': _mod.bounds(args.tier) if hasattr(_mod, 'bounds') else {},
            'exhaustive_within_bound': not tot.caps,
            'bound_note': getattr(_mod, 'BOUND_NOTE', 'the finite space described in rule/bounds is enumerated completely'),
            'tasks': len(tasks),
            'distinct_outcomes': len(tot.outcomes),
            'outcomes': dict(sorted(tot.outcomes.items(), key=lambda kv: -kv[1])[:40]),
            'branch_flags': dict(tot.flags),
            'caps_hit': tot.caps,
            'known_findings_seen': sorted(k for k in viol if k in known),
            'violation_keys': new_keys,
            'violating_executions': tot.nviol,
        },
        'assumptions': getattr(_mod, 'ASSUMPTIONS', []),
        'wall_s': round(wall, 2),
        'violations': len(new_keys),
    }
    ev['coverage'].update(tot.extra)
    EVDIR = os.environ.get('VERIF_EVIDENCE_DIR', os.path.join(ROOT, 'evidence'))
    os.makedirs(EVDIR, exist_ok=True)
    with open(os.path.join(EVDIR, prop + '.json'), 'w') as f:
        json.dump(jsonable(ev), f, indent=1, sort_keys=True)
    for l in lines:
        print(l)
    print('%s tier=%s tasks=%d executions=%d states=%d transitions=%d nontrivial=%d '
          'outcomes=%d violating_execs=%d wall=%.1fs' % (
              prop, args.tier, len(tasks), tot.execs, tot.states, tot.transitions,
              tot.nontrivial, len(tot.outcomes), tot.nviol, wall))
    if vac and rc == 0 and not args.only:
        print('BROKEN-CHECK: vacuous exploration: %r' % (vac,))
        return 2
    return rc


if __name__ == '__main__':
    sys.exit(main())
