"""Reference models -- boring on purpose."""
import re

from pexpect import EOF, TIMEOUT


def leftmost(kind, pat, S):
    """(start, end, matchobj-or-literal) of the leftmost occurrence of pat in S, or None."""
    if kind == 're':
        m = pat.search(S)
        if m is None:
            return None
        return m.start(), m.end(), m
    n = S.find(pat)
    if n < 0:
        return None
    return n, n + len(pat), pat


def naive_search(kind, patterns, text, W):
    """Search all pending text (its last W characters when W) for the listed
    patterns: leftmost start wins, then the lowest list index.
    Returns None or dict(index, before, after, rest, start, S, m)."""
    S = text[-W:] if W else text
    off = len(text) - len(S)
    best = None
    for idx, p in enumerate(patterns):
        if p is EOF or p is TIMEOUT:
            continue
        r = leftmost(kind, p, S)
        if r is None:
            continue
        if best is None or r[0] < best[1][0]:
            best = (idx, r)
    if best is None:
        return None
    idx, (st, en, m) = best
    return dict(index=idx, before=text[:off + st], after=S[st:en], rest=S[en:],
                start=st, end=en, S=S, m=m)


def naive_expect(kind, patterns, pending, answers, W):
    """The naive procedure of C03: search the pending text, then after each read
    search all pending text again.  answers: list of chunks (decoded) / TIMEOUT / EOF.
    Returns dict(outcome, consumed, ...)."""
    text = pending
    r = naive_search(kind, patterns, text, W)
    if r is not None:
        r.update(outcome='match', consumed=0)
        return r
    for k, a in enumerate(answers):
        if a is TIMEOUT:
            return dict(outcome='TIMEOUT', consumed=k + 1, before=text,
                        index=patterns.index(TIMEOUT) if TIMEOUT in patterns else None)
        if a is EOF:
            return dict(outcome='EOF', consumed=k + 1, before=text,
                        index=patterns.index(EOF) if EOF in patterns else None)
        text = text + a
        r = naive_search(kind, patterns, text, W)
        if r is not None:
            r.update(outcome='match', consumed=k + 1)
            return r
    return dict(outcome='TIMEOUT', consumed=len(answers), before=text,
                index=patterns.index(TIMEOUT) if TIMEOUT in patterns else None)


def splittings(n, max_cuts=None):
    """All ways to cut range(n) into consecutive non-empty pieces: lists of cut offsets."""
    out = []
    for mask in range(1 << max(0, n - 1)):
        cuts = [i + 1 for i in range(n - 1) if mask >> i & 1]
        if max_cuts is not None and len(cuts) > max_cuts:
            continue
        out.append(cuts)
    return out


def split_at(s, cuts):
    pieces = []
    prev = 0
    for c in list(cuts) + [len(s)]:
        pieces.append(s[prev:c])
        prev = c
    return pieces
