"""C05 -- deadlines.  Virtual-time exploration on the controlled environment:
entry point x T x transport x peer behaviour with every placement of its events
on a time grid around the deadline x injected EINTR answers of select/poll.
The elapsed virtual time of every call is exact, so the oracle is exact."""
import socket

import pexpect
from pexpect import EOF, TIMEOUT

from mc import env as E
from mc.explore import dfs, Cut, Chooser
from mc.runner import Acc

PROPERTY = 'C05'
RULE = ('case = (entry point, T, transport, peer scenario with its events placed on the time grid, EINTR answer sequence); '
        'non-trivial = the peer does something during the call or the wait is interrupted; distinct by construction')
ASSUMPTIONS = ['time is virtual: the library clock, sleeps and every blocking wait are resolved on it; budget B = 0.25 s covers the '
               "library's own polling quanta (waitnoecho sleeps 0.1 s per round)",
               'signals handled by the parent are modelled as EINTR answers of select/poll (0-2 per execution), not as real signal delivery',
               'PopenSpawn reader thread runs eagerly (moves output to the queue as soon as it is written); delayafterread=0.01 there']
REQUIRED_FLAGS = {'flood': 1, 'bystander': 1, 'delayafterread_none': 1, 'timeout_on_time': 1, 'match_before_deadline': 1, 'trickle': 1, 'eintr': 1, 'hup_alive': 1, 'tnone_hang': 1}

B = 0.25
EPS = 0.01
DEFAULT = 0.3
TRANSPORTS = ['pty-select', 'pty-poll', 'fd-select', 'fd-poll', 'popen', 'socket']
ENTRIES = ['expect', 'expect_exact', 'expect_list', 'expect_loop', 'read_nonblocking']
TS = [-1, None, 0, 0.3, 1.0]


def bounds(tier):
    return dict(entries=ENTRIES + ['waitnoecho'], T=['-1 (instance default 0.3)', None, 0, 0.3, 1.0], transports=TRANSPORTS,
                grid=['0- (before the call)', '0+', 'T/2', 'T-0.01', 'T+0.01', '3T'],
                scenarios=['silent', 'burst@g', 'trickle', 'match@g', 'pending+match@g', 'hangup@g alive until d', 'exit@g',
                           'data+hangup@g', 'echo-off@g'], eintr_budget=1 if tier == 'quick' else 2, B=B)


def tasks(tier):
    out = []
    for tr in TRANSPORTS:
        for entry in ENTRIES:
            out.append(dict(transport=tr, entry=entry, tier=tier))
    for tr in ('pty-select', 'pty-poll'):
        out.append(dict(transport=tr, entry='waitnoecho', tier=tier))
    # a socket that carries its owner's own time limit (create_connection(timeout=...), settimeout): the call's
    # timeout - None included - is what counts
    for entry in ENTRIES:
        out.append(dict(transport='socket', entry=entry, tier=tier, sock_own=0.2))
    return out


def grid(Tref):
    return [('0-', None), ('0+', 1e-4), ('T/2', Tref / 2), ('T-e', Tref - EPS), ('T+e', Tref + EPS), ('3T', 3 * Tref)]


def scenarios(task, Tref):
    tr = task['transport']
    pty = tr.startswith('pty')
    G = grid(Tref)
    if task['entry'] == 'waitnoecho':
        sc = [('never', [])]
        for name, g in G:
            sc.append(('echo-off@' + name, [(g, 'echo_off', None)]))
        return sc
    sc = [('silent', [])]
    for name, g in G:
        sc.append(('burst@' + name, [(g, 'w', b'xx')]))
        sc.append(('match@' + name, [(g, 'w', b'OK')]))
        sc.append(('exit@' + name, [(g, 'exit', 0)]))
        if name != '0-':
            sc.append(('pending+match@' + name, [(None, 'w', b'yy'), (g, 'w', b'OK')]))
    sc.append(('trickle', [(Tref / 8 + i * Tref / 4, 'w', b'x') for i in range(16)]))
    # a flood: every read returns exactly maxread (= 4 here) characters, for 4T
    sc.append(('flood', [(Tref / 16 + i * Tref / 8, 'w', b'xxxx') for i in range(32)]))
    # a second object of the same kind with unread output sits next to the one under test
    sc.append(('silent+bystander', []))
    sc.append(('match@T/2+bystander', [(Tref / 2, 'w', b'OK')]))
    sc.append(('trickle-then-match', [(Tref / 8 + i * Tref / 4, 'w', b'x') for i in range(2)] + [(Tref * 0.7, 'w', b'OK')]))
    if pty:
        for name, g in G[:3]:
            for dname, d in (('soon', (g or 0) + Tref / 4), ('3T', 3 * Tref), ('never', None)):
                sc.append(('hup@%s,alive-until-%s' % (name, dname), [(g, 'hup', None), (d, 'die', None)] if d is not None else [(g, 'hup', None)]))
            sc.append(('data+hup@%s,alive-until-3T' % name, [(g, 'w', b'xx'), (g, 'hup', None), (3 * Tref, 'die', None)]))
    return sc


class Setup(object):
    def __init__(self, env, task, maxread=2000):
        tr = task['transport']
        self.sock = None
        self.proc = None
        kw = dict(timeout=30, maxread=maxread)   # the instance default is changed after construction, see below
        if tr.startswith('pty'):
            sp = E.pty_spawn(env, use_poll=(tr == 'pty-poll'), spawn_kw=dict(raw=True, echo=(task['entry'] == 'waitnoecho')), **kw)
            self.wfd = sp.hs_slave
            self.proc = sp.hs_proc
        elif tr.startswith('fd'):
            from pexpect import fdpexpect
            r, w = env.pipe()
            sp = fdpexpect.fdspawn(r, use_poll=(tr == 'fd-poll'), **kw)
            self.wfd = w
        elif tr == 'popen':
            from pexpect import popen_spawn
            E.install_popen()
            env.eager_reader = True
            sp = popen_spawn.PopenSpawn(['fake'], **kw)
            sp.delayafterread = 0.01
            self.wfd = env.popen.peer_out
            self.proc = env.popen.proc
        else:
            from pexpect import socket_pexpect
            a, b = socket.socketpair()
            if task.get('sock_own') is not None:
                a.settimeout(task['sock_own'])
            self.sock = E.SocketProxy(a)
            self.peer = b
            env.sockets[id(a)] = a
            env.sockets[id(b)] = b
            env.fds.add(a.fileno())
            sp = socket_pexpect.SocketSpawn(self.sock, **kw)
            self.wfd = None
        sp.timeout = DEFAULT        # documented attribute: -1 must mean its value at call time
        self.sp = sp
        self.tr = tr
        self.env = env

    def action(self, kind, arg):
        env = self.env
        if kind == 'w':
            if self.sock is not None:
                return ('fn', (lambda d=arg: self.peer.sendall(d)), None)
            return ('w', arg, self.wfd)
        if kind == 'hup':
            return ('hup', None, self.wfd)
        if kind == 'echo_off':
            return ('echo_off', None, self.wfd)
        if kind in ('exit', 'die'):
            if self.proc is not None:
                return ('exit', (self.proc, arg or 0), None)
            if self.sock is not None:
                return ('fn', (lambda: self.peer.close()), None)
            return ('hup', None, self.wfd)
        raise KeyError(kind)


def run_case(ch, task, T, scen, eintr, nodelay=False):
    """One execution.  Returns (obs, violation)."""
    E.install()
    env = E.Env(ch)
    env.eintr_budget = eintr
    st = None
    other = None
    obs = {}
    viol = None
    name, events = scen
    try:
        st = Setup(env, task, maxread=4 if name == 'flood' else 2000)
        sp = st.sp
        if name.endswith('+bystander') and task['transport'] != 'popen':
            other = Setup(env, task)
            k_, a_, fd_ = other.action('w', b'unread output of the other object')
            env.fire(E.Action(k_, a_, None, fd_))
            # the other object has been in use (one small read) and still has output nobody has read yet
            if task['transport'] == 'socket':
                other.sp.read_nonblocking(3, 0.01)
            else:
                other.sp.read_nonblocking(3, 0)
        if nodelay:
            sp.delayafterread = None        # documented setting: skip the sleep after each read
        t_start = env.now()
        connected_until = None
        for (g, kind, arg) in events:
            k, a, fd = st.action(kind, arg)
            if g is None:
                env.fire(E.Action(k, a, None, fd))       # before the call
                if kind in ('hup', 'exit'):
                    connected_until = 0.0
            else:
                env.add(k, a, at=t_start + g, fd=fd)
                if kind in ('hup', 'exit') and connected_until is None:
                    connected_until = g
        entry = task['entry']
        Teff = DEFAULT if T == -1 else T
        pats = [b'OK']
        out = None
        try:
            if entry == 'expect':
                r = sp.expect(pats, timeout=T)
            elif entry == 'expect_exact':
                r = sp.expect_exact(pats, timeout=T)
            elif entry == 'expect_list':
                import re
                r = sp.expect_list([re.compile(b'OK')], timeout=T)
            elif entry == 'expect_loop':
                import re
                from pexpect.expect import searcher_re
                if T == -1:
                    # expect_loop is the documented common loop: -1 must mean the instance default here too
                    r = sp.expect_loop(searcher_re([re.compile(b'OK')]), timeout=-1)
                else:
                    r = sp.expect_loop(searcher_re([re.compile(b'OK')]), timeout=T)
            elif entry == 'read_nonblocking':
                r = sp.read_nonblocking(2000, T)
                out = 'data' if r else 'empty'
            else:
                r = sp.waitnoecho(T)
                out = 'noecho' if r else 'echo-timeout'
            if out is None:
                out = 'match'
        except TIMEOUT as e:
            out = 'TIMEOUT' if type(e) is TIMEOUT else 'TIMEOUT-subclass'
        except EOF:
            out = 'EOF'
        elapsed = env.now() - t_start
        obs = dict(outcome=out, elapsed=round(elapsed, 4), T=T)
        tol = 1e-3
        if Teff is not None and elapsed > Teff + B:
            viol = ('late', '%s: returned %s after %.3fs, T=%r (+%.2f allowed)' % (name, out, elapsed, T, B))
            if env.blocked.get('waitpid', 0.0) >= elapsed - Teff - B:
                viol = ('blocking-waitpid', viol[1] + '; %.3fs of it inside a blocking waitpid (liveness check after the hang-up)'
                        % env.blocked.get('waitpid', 0.0))
        elif out in ('TIMEOUT', 'echo-timeout'):
            if Teff is None:
                viol = ('timeout-with-None', '%s: TIMEOUT reported although timeout=None' % name)
            elif elapsed < Teff - tol and (connected_until is None or connected_until > elapsed):
                viol = ('early-timeout', '%s: TIMEOUT after %.4fs < T=%r while the child is connected' % (name, elapsed, Teff))
        if viol is None and name.startswith(('match@', 'pending+match@', 'trickle-then-match')) and entry not in ('waitnoecho',):
            g = events[-1][0]
            g = 0.0 if g is None else g
            must = (Teff is None) or (g <= Teff - EPS / 2) if Teff != 0 else (events[-1][0] is None)
            if must:
                if entry == 'read_nonblocking':
                    if out not in ('data',) and st.tr != 'popen':
                        viol = ('missed', '%s: text arriving at %.3f was not returned (outcome %s), T=%r' % (name, g, out, T))
                elif out != 'match':
                    viol = ('missed', '%s: matching text arriving at %.3f <= T=%r but outcome %s after %.3fs'
                            % (name, g, T, out, elapsed))
        if viol is None and name.startswith('echo-off@') and entry == 'waitnoecho':
            g = events[-1][0]
            g = 0.0 if g is None else g
            if (Teff is None or g <= Teff - EPS / 2) and Teff != 0 and out != 'noecho':
                viol = ('missed', '%s: echo turned off at %.3f but waitnoecho(%r) returned False' % (name, g, T))
            if Teff == 0 and events[-1][0] is None and out != 'noecho':
                viol = ('missed', '%s: echo already off but waitnoecho(0) returned False' % name)
    except E.Hang as h:
        obs = dict(outcome='hang', elapsed=None, T=T)
        if T is not None:
            viol = ('blocking-waitpid' if 'waitpid' in str(h) else 'hang',
                    '%s: call with T=%r never returns: %s' % (name, T, h))
    except Cut as c:
        obs = dict(outcome='horizon', elapsed=None, T=T)
        if T is not None:
            viol = ('horizon', '%s: %s' % (name, c))
    except E.HarnessError:
        raise
    except Exception as e:
        obs = dict(outcome='exc:%s' % type(e).__name__, elapsed=None, T=T)
        viol = ('exception', '%s: T=%r raised %r' % (name, T, e))
    finally:
        try:
            if st is not None and st.tr == 'popen':
                E.finish_popen(env)
            if st is not None and st.tr.startswith('pty'):
                E.finalize_pty(st.sp)
                try:
                    E.finalize_pty(other.sp)
                except Exception:
                    pass
            if st is not None and st.tr.startswith('fd'):
                import os
                try:
                    os.close(st.sp.child_fd)
                except OSError:
                    pass
        finally:
            env.finish()
    obs['eintrs'] = eintr - env.eintr_budget
    return obs, viol


def vkey(task, T, scen, sym):
    if sym == 'blocking-waitpid' and ('hup@' in scen):
        # one recorded defect: the liveness check in pty read_nonblocking's EOF handler is a
        # blocking waitpid (ptyprocess.isalive once EOF was flagged); keyed by call site + entry point
        return '%s:%s:hangup-while-child-alive:blocking-waitpid' % (task['transport'], task['entry'])
    return '%s%s:%s:T=%s:%s:%s' % (task['transport'], '+own-timeout' if task.get('sock_own') is not None else '', task['entry'], tname(T), scen, sym)


def tname(T):
    return {-1: 'default', None: 'None'}.get(T, str(T))


def run_task(task):
    acc = Acc()
    q = task['tier'] == 'quick'
    budget = 1 if q else 2
    for T in TS:
        Tref = DEFAULT if T in (-1, None, 0) else T
        for scen in scenarios(task, Tref):
            for eintr in ((0, budget) if task['transport'] != 'socket' and task['transport'] != 'popen' else (0,)):
                def run(ch):
                    return run_case(ch, task, T, scen, eintr)
                for ch, (obs, viol) in dfs(run):
                    acc.execs += 1
                    acc.transitions += 1
                    o = obs.get('outcome')
                    acc.outcomes['%s' % o] += 1
                    if scen[1] or obs.get('eintrs'):
                        acc.nontrivial += 1
                    if obs.get('eintrs'):
                        acc.flags['eintr'] += 1
                    if o == 'TIMEOUT' and obs['elapsed'] is not None and T not in (None,) and obs['elapsed'] >= (DEFAULT if T == -1 else T) - 1e-3:
                        acc.flags['timeout_on_time'] += 1
                    if o == 'match' and scen[0].startswith('match@T'):
                        acc.flags['match_before_deadline'] += 1
                    if scen[0] == 'trickle':
                        acc.flags['trickle'] += 1
                    if scen[0] == 'flood':
                        acc.flags['flood'] += 1
                    if scen[0].endswith('+bystander'):
                        acc.flags['bystander'] += 1
                    if scen[0].startswith('hup@'):
                        acc.flags['hup_alive'] += 1
                    if o == 'hang' and T is None:
                        acc.flags['tnone_hang'] += 1
                    if viol:
                        key = vkey(task, T, scen[0], viol[0])
                        acc.violation(key, viol[1] + ' | obs %r' % (obs,),
                                      dict(task=task, T=T, scen=scen[0], eintr=eintr, choices=ch.choices()))
            # the documented delayafterread=None setting (no sleep after a read): the deadline must still be overall
            if task['transport'] != 'popen' and task['entry'] != 'waitnoecho' and scen[0] in (
                    'silent', 'trickle', 'trickle-then-match', 'match@T/2', 'burst@T/2', 'exit@T/2'):
                obs, viol = run_case(Chooser(()), task, T, scen, 0, nodelay=True)
                acc.execs += 1
                acc.transitions += 1
                acc.nontrivial += 1
                acc.flags['delayafterread_none'] += 1
                acc.outcomes['%s' % obs.get('outcome')] += 1
                if viol:
                    acc.violation(vkey(task, T, scen[0], viol[0]) + ':delayafterread=None', viol[1] + ' | obs %r' % (obs,),
                                  dict(task=task, T=T, scen=scen[0], eintr=0, choices=[], nodelay=True))
        acc.states += 1
    acc.sample(dict(task=task, T=0.3, scenario='trickle: b"x" every 0.075s from 0.0375s, 16 times', eintr=1))
    return acc


def replay(spec):
    from mc.explore import unjson
    spec = unjson(spec)
    task, T = spec['task'], spec['T']
    Tref = DEFAULT if T in (-1, None, 0) else T
    scen = [s for s in scenarios(task, Tref) if s[0] == spec['scen']][0]
    obs, viol = run_case(Chooser(spec['choices']), task, T, scen, spec['eintr'], nodelay=spec.get('nodelay', False))
    out = {'observation': obs, 'violation': None}
    if viol:
        out['violation'] = {'key': vkey(task, T, scen[0], viol[0]) + (':delayafterread=None' if spec.get('nodelay') else ''), 'msg': viol[1]}
    return out
