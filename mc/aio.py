"""Controlled asyncio: the REAL SelectorEventLoop and the REAL _UnixReadPipeTransport on
the real descriptor; only two things are replaced -- the selector (its select(timeout)
is the scheduling point, runs the real selector with timeout 0, otherwise waits on the
virtual clock) and loop.time() (virtual).  asyncio.unix_events' `os` name is proxied so
that the transport's os.read is served like every other read of the library."""
import asyncio
import selectors

from mc import env as E
from mc.vclock import CLOCK

_installed = False


def install():
    global _installed
    E.install()
    if not _installed:
        import asyncio.unix_events as ue
        ue.os = E.OSP
        _installed = True


class CtlSelector(selectors.BaseSelector):
    def __init__(self):
        self.real = selectors.DefaultSelector()

    def register(self, fileobj, events, data=None):
        return self.real.register(fileobj, events, data)

    def unregister(self, fileobj):
        return self.real.unregister(fileobj)

    def modify(self, fileobj, events, data=None):
        return self.real.modify(fileobj, events, data)

    def get_map(self):
        return self.real.get_map()

    def get_key(self, fileobj):
        return self.real.get_key(fileobj)

    def close(self):
        return self.real.close()

    def _now(self):
        env = E.ENV
        res = {k.fd: (k, ev) for k, ev in self.real.select(0)}
        for fd, key in list(self.real.get_map().items()):
            if key.events & selectors.EVENT_READ and env is not None and env.readable(key.fd):
                k, ev = res.get(key.fd, (key, 0))
                res[key.fd] = (k, ev | selectors.EVENT_READ)
        return list(res.values())

    def select(self, timeout=None):
        env = E.ENV
        if env is None:
            return self.real.select(timeout)
        env.sched('loop-select')
        r = self._now()
        if r or (timeout is not None and timeout <= 0):
            return r
        box = []

        def ready():
            x = self._now()
            if x:
                box[:] = x
            return bool(x)
        env.block_until(ready, timeout, 'loop-select')
        return list(box)


def new_loop():
    install()
    loop = asyncio.SelectorEventLoop(CtlSelector())
    loop.time = lambda: CLOCK.now
    return loop


def close_loop(loop):
    try:
        # the self-pipe and pending callbacks
        loop.run_until_complete(asyncio.sleep(0))
    except Exception:
        pass
    try:
        loop.close()
    except Exception:
        pass
