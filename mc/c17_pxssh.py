"""C17 -- pxssh login.  The real pxssh.login() talks (over the _spawnpty seam, virtual
clock) to a deterministic fake ssh server on the slave side that plays every dialogue
of <= 4 events and keeps a transcript of what it printed and received, in order."""
import itertools
import re

import pexpect
from pexpect import EOF, TIMEOUT, ExceptionPexpect
from pexpect import pxssh

from mc import env as E
from mc.explore import Chooser, Cut
from mc.runner import Acc

PROPERTY = 'C17'
RULE = ('case = (server dialogue of <= 4 events, shell flavour, login options, mode); every case executed once on the virtual '
        'clock; non-trivial = the dialogue contains a question, a prompt-like banner, a refusal or silence')
ASSUMPTIONS = ['the server is a deterministic model (no echo); "password prompt" for the oracle = any server output matching the password regex',
               '"reached a shell prompt" = the server model is in shell state; timeouts are virtual (login_timeout=1, timeout=2)']
REQUIRED_FLAGS = {'second_hop': 1, 'slow_link_login': 1, 'password_sent': 1, 'hostkey_yes': 1, 'login_true': 1, 'login_raised': 1, 'prompt_delimits': 1, 'flavour_csh': 1, 'flavour_zsh': 1}

EVENTS = ['hostkey', 'password', 'passphrase', 'denied', 'termtype', 'shell', 'weird', 'banner', 'pwbanner', 'closed', 'silence', 'exit']
TEXT = {
    'hostkey': b"The authenticity of host 'h' can't be established.\r\nAre you sure you want to continue connecting (yes/no)? ",
    'password': b"user@h's password: ",
    'passphrase': b"Enter passphrase for key '/k': ",
    'denied': b"Permission denied, please try again.\r\n",
    'termtype': b"Terminal type? ",
    'banner': b"Welcome to h, load 1 # users $ 2\r\n",
    'pwbanner': b"Note: your password: expires soon\r\n",
    'closed': b"Connection closed by remote host\r\n",
}
QUESTIONS = ('hostkey', 'password', 'passphrase', 'termtype')
PW = 'secret-pw'
PWRE = re.compile(br'(?i)(?:password:)|(?:passphrase for key)')


class Server(object):
    def __init__(self, env, sp, events, flavour, latency=0.0):
        self.env, self.sp = env, sp
        self.latency = latency
        self.hop2 = None             # None | 'asked' | 'shell'
        self.hop2_pw = 0
        self.events = list(events)
        self.flavour = flavour
        self.i = 0
        self.waiting = None          # (event, deadline)
        self.shell = False
        self.prompt = b''
        self.consumed = 0
        self.transcript = []         # ('out', bytes) / ('in', bytes)
        self.busy = False
        self.resume_at = None
        self.dead = False
        self.zsh_restore = False

    def out(self, data):
        if data:
            self.transcript.append(('out', data))
            if self.latency:
                self.env.add('w', data, at=self.env.now() + self.latency, fd=self.sp.hs_slave)
            else:
                self.env.peer_write(self.sp.hs_slave, data)

    def lines(self):
        data = bytes(self.env.sent.get(self.sp.hs_master, b''))
        res = []
        while True:
            nl = data.find(b'\n', self.consumed)
            if nl < 0:
                break
            res.append(data[self.consumed:nl])
            self.consumed = nl + 1
        return res

    def command(self, line):
        """Shell state: one input line."""
        f = self.flavour
        if line == b"PS1='[PEXPECT]\\$ '":
            if f == 'sh':
                self.prompt = b'[PEXPECT]$ '
            else:
                self.out(b'bad assignment\r\n')
        elif line == b"set prompt='[PEXPECT]\\$ '":
            if f == 'csh':
                self.prompt = b'[PEXPECT]$ '
            else:
                self.out(b'set: not found\r\n')
        elif line == b'prompt restore;':
            self.zsh_restore = (f == 'zsh')
            if f != 'zsh':
                self.out(b'prompt: not found\r\n')
        elif line == b"PS1='[PEXPECT]%(!.#.$) '":
            if f == 'zsh':
                self.prompt = b'[PEXPECT]$ '
            elif f == 'sh':
                self.prompt = b'[PEXPECT]%(!.#.$) '
        elif line.startswith(b'/bin/true') and self.hop2 is None:
            # second hop (spawn_local_ssh=False): banner with prompt-like characters, then a password prompt
            self.hop2 = 'asked'
            self.out(b'Welcome to hop2 # maintenance at 5$\r\n' + TEXT['password'])
            return
        elif self.hop2 == 'asked':
            if line == PW.encode():
                self.hop2_pw += 1
            self.hop2 = 'shell'
            self.prompt = b'inner> '
        elif line.startswith(b'echo '):
            self.out(line[5:] + b'\r\n')
        elif line in (b'', b'unset PROMPT_COMMAND'):
            pass
        else:
            self.out(b'sh: command not found\r\n')
        self.out(self.prompt)

    def pump(self):
        if self.busy or self.dead:
            return
        self.busy = True
        try:
            env = self.env
            while True:
                for line in self.lines():
                    self.transcript.append(('in', line))
                    if self.shell:
                        self.command(line)
                    elif self.waiting is not None and self.waiting[0] in QUESTIONS:
                        self.waiting = None
                if self.waiting is not None:
                    if E.CLOCK.now >= self.waiting[1] - 1e-9:
                        self.waiting = None
                    else:
                        return
                if self.shell or self.i >= len(self.events):
                    return
                ev = self.events[self.i]
                self.i += 1
                if ev in TEXT:
                    self.out(TEXT[ev])
                    if ev in QUESTIONS:
                        self.wait(ev, 3.0)
                    else:
                        self.wait('pause', 0.01)
                elif ev in ('shell', 'weird'):
                    self.shell = True
                    self.prompt = b'$ ' if ev == 'shell' else b'% '
                    self.out((b'Last login: today\r\n' if ev == 'shell' else b'') + self.prompt)
                elif ev == 'silence':
                    self.wait('silence', 1.5)
                elif ev == 'exit':
                    self.dead = True
                    env.procs.exit(self.sp.hs_proc, 0)
                    return
        finally:
            self.busy = False

    def wait(self, what, d):
        self.waiting = (what, E.CLOCK.now + d)
        self.env.add('fn', self.pump, at=self.env.now() + d)


_HPX = None


def hpx_class():
    global _HPX
    if _HPX is None:
        base = E.hs_class(dict(raw=True))

        class HPx(base, pxssh.pxssh):
            pass
        _HPX = HPx
    E.hs_class(dict(raw=True))
    return _HPX


OPTIONS = [dict(auto_prompt_reset=a, sync_original_prompt=s, password=p)
           for a in (True, False) for s in (True, False) for p in (PW, '')]
# a slow link: every server reply arrives 0.6 s (> try_read_prompt's first-character timeout) after it was produced
OPTIONS.append(dict(auto_prompt_reset=True, sync_original_prompt=True, password=PW, latency=0.6))


def bounds(tier):
    return dict(events=EVENTS, max_events=3 if tier == 'quick' else 4, flavours=['sh', 'csh', 'zsh'], options=OPTIONS,
                modes=['bytes', 'utf-8'], login_timeout=1, timeout=2)


def tasks(tier):
    out = []
    for first in EVENTS:
        for mode in ('bytes', 'utf-8'):
            out.append(dict(first=first, mode=mode, tier=tier))
    return out


def run_case(task, events, flavour, opt):
    E.install()
    env = E.Env(Chooser(()))
    env.max_points = 400000
    box = {}
    viol = None
    obs = {}
    enc = None if task['mode'] == 'bytes' else task['mode']
    try:
        def on_spawn(sp):
            box['sp'] = sp
            box['srv'] = Server(env, sp, events, flavour, opt.get('latency', 0.0))
            env.pump = box['srv'].pump
        env.on_spawn = on_spawn
        cls = hpx_class()
        s = cls(timeout=2, encoding=enc, echo=False)
        s.delaybeforesend = None
        t0 = env.now()
        result = None
        exc = None
        try:
            result = s.login('h', 'user', password=opt['password'], login_timeout=3 if opt.get('latency') else 1, cmd='/bin/true',
                             auto_prompt_reset=opt['auto_prompt_reset'], sync_original_prompt=opt['sync_original_prompt'])
        except E.Hang:
            raise
        except Cut:
            raise
        except E.HarnessError:
            raise
        except BaseException as e:     # noqa
            exc = e
        elapsed = env.now() - t0
        srv = box.get('srv')
        tr = srv.transcript if srv else []
        # server output that directly followed a blank input line (the probes of sync_original_prompt)
        replies = set()
        prev_blank = False
        for k_, v_ in tr:
            if k_ == 'in':
                prev_blank = (v_ == b'')
            elif prev_blank:
                for name_, text_ in TEXT.items():
                    if v_ == text_:
                        replies.add(name_)
                        break
                else:
                    replies.add('other')
        obs = dict(result=result, sync_replies='+'.join(sorted(replies)), exc=type(exc).__name__ if exc else None, elapsed=round(elapsed, 3),
                   shell=srv.shell if srv else None, prompt=srv.prompt if srv else None,
                   transcript=[(k, v[:40]) for k, v in tr][-12:])
        pw = opt['password'].encode()
        # 1. password only as the direct answer to a password/passphrase prompt, at most once
        n_pw = 0
        last_out_since_in = b''
        first_in_after_out = True
        for k, v in tr:
            if k == 'out':
                last_out_since_in += v
                first_in_after_out = True
            else:
                if pw and v == pw:
                    n_pw += 1
                    if not (first_in_after_out and PWRE.search(last_out_since_in)):
                        viol = viol or ('password-unasked', 'password sent when the server had not just asked for it; transcript %r' % (tr[-8:],))
                if v == b'yes':
                    if not (first_in_after_out and b'continue connecting' in last_out_since_in):
                        viol = viol or ('yes-unasked', "'yes' sent without a host-key question; transcript %r" % (tr[-8:],))
                first_in_after_out = False
                last_out_since_in = b''
        if pw and n_pw > 1:
            viol = viol or ('password-twice', 'password sent %d times; transcript %r' % (n_pw, tr))
        bound = 1 + 3 * 2 + 12 + 30 + 5
        if exc is not None:
            if not isinstance(exc, ExceptionPexpect):
                viol = viol or ('foreign-exception', 'login() raised %r' % (exc,))
            elif elapsed > bound:
                viol = viol or ('late', 'login() raised after %.1fs (> %d)' % (elapsed, bound))
        else:
            if result is not True:
                viol = viol or ('result', 'login() returned %r' % (result,))
            elif not srv.shell:
                viol = viol or ('silent-success', 'login() returned True but the dialogue %r never reached a shell prompt' % (events,))
            elif opt['auto_prompt_reset']:
                if srv.prompt != b'[PEXPECT]$ ':
                    viol = viol or ('prompt-not-set', 'login() returned True with prompt reset, but the server prompt is %r' % (srv.prompt,))
                else:
                    S = (lambda x: x.encode()) if enc is None else (lambda x: x)
                    for word in ('A1', 'B22'):
                        s.sendline(S('echo ' + word))
                        ok = s.prompt(timeout=2)
                        if not ok or s.before != S(word + '\r\n'):
                            viol = viol or ('prompt-delimits', 'after login, command echo %s: prompt()=%r before=%r' % (word, ok, s.before))
                            break
                    else:
                        obs['delimits'] = True
                        if not opt.get('latency'):
                            # multi-hop: a second login() on the SAME object with its own original_prompt
                            try:
                                r2 = s.login('h2', 'user', password=PW, login_timeout=1, cmd='/bin/true', spawn_local_ssh=False,
                                             original_prompt=r'inner> ', auto_prompt_reset=False, sync_original_prompt=False)
                            except ExceptionPexpect as e2:
                                r2 = 'raised %s' % type(e2).__name__
                            obs['hop2'] = (r2, srv.hop2, srv.hop2_pw)
                            if r2 is True and (srv.hop2 != 'shell' or srv.hop2_pw != 1):
                                viol = viol or ('hop2', 'second login() on the same object (original_prompt "inner> ") returned True with the far '
                                                'side in state %r and the password sent %d times' % (srv.hop2, srv.hop2_pw))
                            elif r2 is not True:
                                viol = viol or ('hop2', 'second login() on the same object failed: %r (far side %r)' % (r2, srv.hop2))
    except E.Hang as h:
        viol = ('hang', 'login() never returns: %s' % h)
    except Cut as c:
        viol = ('horizon', str(c))
    finally:
        if 'sp' in box:
            E.finalize_pty(box['sp'])
        env.finish()
    return obs, viol


def vkey(task, events, opt, sym, obs=None):
    if sym == 'silent-success':
        key = 'silent-success:auto_prompt_reset=%s:sync_original_prompt=%s' % (opt['auto_prompt_reset'], opt['sync_original_prompt'])
        if opt['sync_original_prompt'] and obs is not None:
            # what did the server print in reply to the blank lines of the synchronisation?
            key += ':sync-replies=' + (obs.get('sync_replies') or 'nothing')
        return key
    return '%s:%s:%s' % (task['mode'], sym, '-'.join(events))


def run_task(task):
    acc = Acc()
    q = task['tier'] == 'quick'
    maxlen = 3 if q else 4
    first = task['first']
    for n in range(0, maxlen):
        for rest in itertools.product(EVENTS, repeat=n):
            events = (first,) + rest
            for flavour in ('sh', 'csh', 'zsh'):
                if flavour != 'sh' and not any(e in ('shell', 'weird') for e in events):
                    continue
                for opt in OPTIONS:
                    obs, viol = run_case(task, events, flavour, opt)
                    acc.execs += 1
                    acc.transitions += len(obs.get('transcript', ()))
                    if any(e != 'shell' for e in events):
                        acc.nontrivial += 1
                    tr = obs.get('transcript', ())
                    if any(k == 'in' and v == PW.encode() for k, v in tr):
                        acc.flags['password_sent'] += 1
                    if any(k == 'in' and v == b'yes' for k, v in tr):
                        acc.flags['hostkey_yes'] += 1
                    if obs.get('result') is True:
                        acc.flags['login_true'] += 1
                        if flavour != 'sh' and obs.get('delimits'):
                            acc.flags['flavour_' + flavour] += 1
                    if obs.get('exc'):
                        acc.flags['login_raised'] += 1
                    if obs.get('delimits'):
                        acc.flags['prompt_delimits'] += 1
                    if obs.get('hop2'):
                        acc.flags['second_hop'] += 1
                    if opt.get('latency') and obs.get('result') is True:
                        acc.flags['slow_link_login'] += 1
                    acc.outcomes['%s/%s' % (obs.get('exc') or obs.get('result'), 'viol:' + viol[0] if viol else 'ok')] += 1
                    if viol:
                        acc.violation(vkey(task, events, opt, viol[0], obs),
                                      'dialogue %r flavour %s options %r: %s | obs %r' % (events, flavour, opt, viol[1], obs),
                                      dict(task=task, events=list(events), flavour=flavour, opt=opt))
    acc.states += 1
    acc.sample(dict(task=task, events=['hostkey', 'password', 'shell'], flavour='csh', options=OPTIONS[0]))
    return acc


def replay(spec):
    from mc.explore import unjson
    spec = unjson(spec)
    task = spec['task']
    obs, viol = run_case(task, tuple(spec['events']), spec['flavour'], spec['opt'])
    out = {'observation': {k: repr(v) for k, v in obs.items()}, 'violation': None}
    if viol:
        out['violation'] = {'key': vkey(task, tuple(spec['events']), spec['opt'], viol[0], obs), 'msg': viol[1]}
    return out
