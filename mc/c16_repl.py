"""C16 -- REPLWrapper: each command returns exactly its own output.

The real REPLWrapper drives a harness spawn whose peer is a small line-oriented REPL
model (prompt, continuation prompt while a block is open, SIGINT cancels and re-prompts).
All command sequences up to a bound x output chunking (deviation-bounded "cut here"
choices, including cuts inside the prompt string); the model is bound to reality by
running the short sequences against real bash through replwrap.bash()."""
import itertools
import signal
import termios

import pexpect
from pexpect import EOF, TIMEOUT
from pexpect import replwrap

from mc import env as E
from mc.explore import dfs, Chooser, Cut
from mc.runner import Acc

PROPERTY = 'C16'
RULE = ('case = (command sequence, placement of up to 2 chunk cuts in the REPL output incl. inside the prompt string); '
        'non-trivial = the sequence contains a multi-line / incomplete / large / no-newline command or a cut is placed')
ASSUMPTIONS = ['REPL model: line oriented, no echo, SIGINT cancels the open block and re-prompts; bound to reality by replaying every '
               'sequence of length <= 2 on real bash (TIMEOUT there = inconclusive, never a verdict)',
               'chunk cuts: deviation bound 2 per execution over {middle of the output, output|prompt boundary, inside the prompt}',
               'awaited form: run_command(async_=True) on the controlled real event loop (mc/aio.py), same sequences and cuts']
EXHAUSTIVE = False      # complete only within the deviation bound, see BOUND_NOTE
BOUND_NOTE = 'all placements of at most 2 chunk cuts are enumerated completely; more than 2 cuts per command sequence are not explored'
REQUIRED_FLAGS = {'cut_inside_prompt': 1, 'incomplete_then_ok': 1, 'multiline': 1, 'large': 1, 'real_bash': 1, 'real_python': 1,
                  'cut_before_last_prompt_char': 1, 'partial_output_then_incomplete_then_ok': 1, 'awaited_trailing_newline_block': 1,
                  'awaited_crlf_separated_lines': 1, 'incomplete_with_timeout_none_then_ok': 1, 'existing_spawn_with_echo_on': 1}

PROMPT = replwrap.PEXPECT_PROMPT
CONT = replwrap.PEXPECT_CONTINUATION_PROMPT
NL = '\r\n'
COMMANDS = {
    'noout': ('noout', ''),
    'one': ('one', 'line1' + NL),
    'three': ('three', 'l1' + NL + 'l2' + NL + 'l3' + NL),
    'nonl': ('nonl', 'partial'),
    'big10k': ('big10k', 'x' * 10000 + NL),
    'big300k': ('big300k', ('0123456789' * 30000) + NL),
    'twoline': ('begin\nend', 'block-done' + NL),
    'block3': ('begin\none\nend', 'block-done' + NL),
    'incomplete': ('begin', None),
    'trailingnl': ('one\n', 'line1' + NL),
    'blankinside': ('begin\n\none', 'blank-closed' + NL + 'line1' + NL),
    # earlier lines already printed something when the last line turns out to be incomplete
    'outthenincomplete': ('one\nbegin', None),
    # a block that only runs on the empty line a trailing newline stands for (Python REPL)
    'blockblank': ('begin\none\n', 'blank-closed' + NL),
    # lines separated by CR LF (str.splitlines() takes both), in either form
    'crlflines': ('begin\r\nend', 'block-done' + NL),
    # "wait as long as it takes" on input that turns out to be incomplete
    'incomplete-tnone': ('begin', None),
}
TIMEOUTS = {'incomplete-tnone': None, 'crlflines': 7.5}
OUT = {'noout': '', 'one': 'line1' + NL, 'three': 'l1' + NL + 'l2' + NL + 'l3' + NL, 'nonl': 'partial',
       'big10k': 'x' * 10000 + NL, 'big300k': ('0123456789' * 30000) + NL}


class Repl(object):
    def __init__(self, env, sp, ch, maxcuts):
        self.env, self.sp, self.ch = env, sp, ch
        self.consumed = 0
        self.prompt = '>>> '
        self.cont = '... '
        self.block = False
        self.busy = False
        self.cuts_left = maxcuts
        self.flags = set()
        self.pending_parts = []
        sp.hs_proc.handlers[signal.SIGINT] = self.sigint
        self.emit('', self.prompt)

    def lines(self):
        data = bytes(self.env.sent.get(self.sp.hs_master, b''))
        res = []
        while True:
            nl = data.find(b'\n', self.consumed)
            if nl < 0:
                break
            res.append(data[self.consumed:nl].decode('utf-8'))
            if getattr(self, 'tty_echo', False) and termios.tcgetattr(self.sp.hs_slave)[3] & termios.ECHO:
                self.flags.add('echoed-line')
                self.env.peer_write(self.sp.hs_slave, data[self.consumed:nl] + b'\r\n')
            self.consumed = nl + 1
        return res

    def emit(self, output, prompt):
        """Write output+prompt, optionally cut into two deliveries at a chosen place."""
        text = output + prompt
        cands = []
        if len(output) > 1:
            cands.append(('mid-output', len(output) // 2))
        if output and prompt:
            cands.append(('boundary', len(output)))
        if len(prompt) > 2:
            cands.append(('inside-prompt', len(output) + len(prompt) // 2))
            cands.append(('before-last-prompt-char', len(output) + len(prompt) - 1))
            cands.append(('after-first-prompt-char', len(output) + 1))
        cut = None
        if self.cuts_left > 0 and cands:
            c = self.ch.choose(len(cands) + 1, 'cut')
            if c:
                cut = cands[c - 1]
                self.cuts_left -= 1
                self.flags.add(cut[0])
        data = text.encode('utf-8')
        if cut is None:
            self.env.peer_write(self.sp.hs_slave, data)
        else:
            k = len(text[:cut[1]].encode('utf-8'))
            self.env.peer_write(self.sp.hs_slave, data[:k])
            rest = data[k:]
            self.env.add('w', rest, at=self.env.now() + 0.01, fd=self.sp.hs_slave)

    def sigint(self, sig):
        self.block = False
        self.emit(NL + 'KeyboardInterrupt' + NL, self.prompt)

    def pump(self):
        if self.busy:
            return
        self.busy = True
        try:
            for line in self.lines():
                self.handle(line)
        finally:
            self.busy = False

    def handle(self, line):
        if line.startswith('CHANGE '):
            _, p1, p2 = line.split(' ')
            self.prompt, self.cont = p1, p2
            self.emit('', self.prompt)
        elif self.block:
            if line == 'end':
                self.block = False
                self.emit('block-done' + NL, self.prompt)
            elif line == '':
                # like the Python REPL: an empty line ends the block
                self.block = False
                self.emit('blank-closed' + NL, self.prompt)
            else:
                self.emit('', self.cont)
        elif line == 'begin':
            self.block = True
            self.emit('', self.cont)
        elif line in OUT:
            self.emit(OUT[line], self.prompt)
        elif line == '':
            self.emit('', self.prompt)
        else:
            self.emit('unknown command' + NL, self.prompt)


def bounds(tier):
    return dict(commands=sorted(COMMANDS), max_len=2 if tier == 'quick' else 3, cut_deviation_bound=2,
                real_repl='bash, sequences of length <= 2')


def tasks(tier):
    out = []
    for first in sorted(COMMANDS):
        out.append(dict(kind='model', first=first, tier=tier))
        out.append(dict(kind='model', first=first, tier=tier, aio=True))
    # a wrapper put on an existing spawn whose terminal still echoes (the constructor has to switch that off first)
    for first in ('one', 'incomplete', 'twoline'):
        out.append(dict(kind='model', first=first, tier=tier, echo=True))
    # maxread equal to the length of the first command's whole response (output + prompt): undivided, it arrives
    # as exactly one *full* read, which looks like the middle of a burst
    for first in ('one', 'three', 'twoline'):
        out.append(dict(kind='model', first=first, tier=tier, fullread=True))
    for i in range(4):
        out.append(dict(kind='real-bash', part=i, parts=4, tier=tier))
    for i in range(4):
        out.append(dict(kind='real-python', part=i, parts=4, tier=tier))
    return out


def run_case(ch, seq, maxcuts=2, use_aio=False, echo_on=False, maxread=2000):
    E.install()
    loop = None
    if use_aio:
        import asyncio
        from mc import aio
        aio.install()
    env = E.Env(ch)
    env.max_points = 2000000
    box = {}
    viol = None
    obs = {'results': []}
    try:
        sp = E.pty_spawn(env, encoding='utf-8', echo=echo_on, timeout=5, maxread=maxread, spawn_kw=dict(raw=True, echo=echo_on))
        box['sp'] = sp
        sp.delaybeforesend = None
        if echo_on:
            # an existing spawn whose terminal still echoes: the echo is produced by the REPL model at the moment
            # of each write (while the ECHO flag of the real terminal is set), not by the kernel
            env.no_real_write.add(sp.hs_master)
        repl_model = Repl(env, sp, ch, maxcuts)
        repl_model.tty_echo = echo_on
        env.pump = repl_model.pump
        rw = replwrap.REPLWrapper(sp, '>>> ', 'CHANGE {0} {1}')
        if use_aio:
            loop = aio.new_loop()
            asyncio.set_event_loop(loop)
        for name in seq:
            cmd, want = COMMANDS[name]
            try:
                tmo = TIMEOUTS.get(name, 5)
                if use_aio:
                    got = loop.run_until_complete(rw.run_command(cmd, timeout=tmo, async_=True))
                else:
                    got = rw.run_command(cmd, timeout=tmo)
                kind = 'ret'
            except ValueError as e:
                got, kind = None, 'ValueError'
            except TIMEOUT as e:
                got, kind = None, 'TIMEOUT'
            except EOF as e:
                got, kind = None, 'EOF'
            except (E.Hang, Cut, E.HarnessError):
                raise
            except Exception as e:          # any other exception out of run_command is a verdict, not a crash of the check
                got, kind = None, type(e).__name__
            obs['results'].append((name, kind, None if got is None else (got if len(got) < 60 else '%s...(%d)' % (got[:20], len(got)))))
            if want is None:
                if kind != 'ValueError':
                    viol = ('incomplete-not-rejected', 'incomplete input %r: %s %r instead of ValueError' % (cmd, kind, got))
                    break
            elif kind != 'ret':
                viol = ('raised', 'command %r raised %s (sequence %r)' % (cmd, kind, seq))
                break
            elif got != want:
                viol = ('wrong-output', 'command %r returned %r, its own output is %r (sequence %r)'
                        % (cmd, got if len(got) < 200 else got[:60] + '...(%d)' % len(got),
                           want if len(want) < 200 else want[:60] + '...(%d)' % len(want), seq))
                break
        obs['cuts'] = sorted(repl_model.flags)
    except E.Hang as h:
        viol = ('hang', str(h))
    except Cut as c:
        viol = ('horizon', str(c))
    except (TIMEOUT, EOF) as e:
        # outside a command: the wrapper could not even be set up on this REPL
        viol = ('setup-raised', 'REPLWrapper() raised %s: the prompt the REPL wrote was not recognised' % type(e).__name__)
    finally:
        if use_aio:
            try:
                tr_ = getattr(box.get('sp'), 'async_pw_transport', None)
                if tr_:
                    tr_[1].abort()
                if loop is not None:
                    aio.close_loop(loop)
                asyncio.set_event_loop(None)
            except Exception:
                pass
        if 'sp' in box:
            E.finalize_pty(box['sp'])
        env.finish()
    return obs, viol


BASH = {
    'noout': ('true', ''),
    'one': ('echo line1', 'line1' + NL),
    'three': ("printf 'l1\\nl2\\nl3\\n'", 'l1' + NL + 'l2' + NL + 'l3' + NL),
    'nonl': ("printf partial", 'partial'),
    'big10k': ("head -c 10000 /dev/zero | tr '\\0' x; echo", 'x' * 10000 + NL),
    'twoline': ('if true; then\necho block-done; fi', 'block-done' + NL),
    'block3': ('if true; then\necho block-done\nfi', 'block-done' + NL),
    'incomplete': ('if true; then', None),
    'trailingnl': ('echo line1\n', 'line1' + NL),
    'quotedblank': ("echo 'a\n\nb'", 'a' + NL + NL + 'b' + NL),
    'outthenincomplete': ('echo early\nif true; then', None),
    'crlflines': ('if true; then\r\necho block-done; fi', 'block-done' + NL),
}

PYTHON = {
    'noout': ('pass', ''),
    'one': ("print('line1')", 'line1' + NL),
    'three': ("print('l1'); print('l2'); print('l3')", 'l1' + NL + 'l2' + NL + 'l3' + NL),
    'nonl': ("import sys; sys.stdout.write('partial') and None", 'partial'),
    'big10k': ("print('x' * 10000)", 'x' * 10000 + NL),
    'block': ("for i in range(1):\n    print('block-done')\n", 'block-done' + NL),
    'incomplete': ('def f():', None),
    'blankinside': ("def f():\n    return 7\n\nprint(f())", '7' + NL),
    'outthenincomplete': ("print(5)\ndef g():", None),
}


def run_real(task, acc, only_seq=None):
    TABLE, factory, label = (BASH, replwrap.bash, 'real-bash') if task['kind'] == 'real-bash' else (PYTHON, replwrap.python, 'real-python')
    names = sorted(TABLE)
    seqs = [s for n in (1, 2) for s in itertools.product(names, repeat=n)]
    if only_seq is not None:
        seqs = [tuple(only_seq)]
    for i, seq in enumerate(seqs):
        if i % task['parts'] != task['part']:
            continue
        if task['tier'] == 'quick' and len(seq) == 2 and (i // task['parts']) % 3:
            continue
        res = None
        for attempt in range(2):
            try:
                rw = factory()
                res = []
                for name in seq:
                    cmd, want = TABLE[name]
                    try:
                        got = rw.run_command(cmd, timeout=None if (want is None and name == 'incomplete') else 20)
                        res.append((name, 'ret', got, want))
                    except ValueError:
                        res.append((name, 'ValueError', None, want))
                    except (TIMEOUT, EOF, OSError):
                        raise
                    except Exception as e:
                        res.append((name, type(e).__name__, None, want))
                rw.child.close(force=True)
                break
            except (TIMEOUT, EOF, OSError):
                res = None
                try:
                    rw.child.close(force=True)
                except Exception:
                    pass
        acc.execs += 1
        acc.transitions += len(seq)
        if res is None:
            acc.extra['real_inconclusive'] = acc.extra.get('real_inconclusive', 0) + 1
            continue
        acc.flags['real_bash' if label == 'real-bash' else 'real_python'] += 1
        acc.nontrivial += 1
        acc.extra['env_traces_validated_against_real_repl'] = acc.extra.get('env_traces_validated_against_real_repl', 0) + 1
        for name, kind, got, want in res:
            ok = (kind == 'ValueError') if want is None else (kind == 'ret' and got == want)
            acc.outcomes['real:%s' % ('ok' if ok else 'differs')] += 1
            if not ok:
                acc.violation('%s:%s' % (label, name), label + ', sequence %r: command %s gave %s %r, expected %r'
                              % (seq, name, kind, got if not got or len(got) < 100 else got[:50], want if not want or len(want) < 100 else want[:50]),
                              dict(task=task, seq=list(seq), real=True))
                break


def task_maxread(task):
    if not task.get('fullread'):
        return 2000
    return len(COMMANDS[task['first']][1]) + len(replwrap.PEXPECT_PROMPT)


def run_task(task):
    acc = Acc()
    if task['kind'] in ('real-bash', 'real-python'):
        run_real(task, acc)
        acc.states += 1
        return acc
    q = task['tier'] == 'quick'
    names = sorted(COMMANDS)
    maxlen = 2 if q else 3
    for n in range(0, maxlen):
        for rest in itertools.product(names, repeat=n):
            seq = (task['first'],) + rest
            if sum(1 for s in seq if s == 'big300k') > 1:
                continue
            big = 'big300k' in seq

            def run(ch):
                return run_case(ch, seq, maxcuts=1 if big else 2, use_aio=bool(task.get('aio')), echo_on=bool(task.get('echo')), maxread=task_maxread(task))
            for ch, (obs, viol) in dfs(run):
                acc.execs += 1
                acc.transitions += len(seq)
                nt = bool(obs.get('cuts')) or any(s in ('twoline', 'block3', 'incomplete', 'nonl', 'big10k', 'big300k') for s in seq)
                if nt:
                    acc.nontrivial += 1
                if 'inside-prompt' in obs.get('cuts', ()):
                    acc.flags['cut_inside_prompt'] += 1
                if 'before-last-prompt-char' in obs.get('cuts', ()):
                    acc.flags['cut_before_last_prompt_char'] += 1
                if 'outthenincomplete' in seq[:-1]:
                    acc.flags['partial_output_then_incomplete_then_ok'] += 1
                if 'blockblank' in seq and task.get('aio'):
                    acc.flags['awaited_trailing_newline_block'] += 1
                if task.get('echo'):
                    acc.flags['existing_spawn_with_echo_on'] += 1
                if 'crlflines' in seq and task.get('aio'):
                    acc.flags['awaited_crlf_separated_lines'] += 1
                if 'incomplete-tnone' in seq[:-1]:
                    acc.flags['incomplete_with_timeout_none_then_ok'] += 1
                if 'incomplete' in seq[:-1]:
                    acc.flags['incomplete_then_ok'] += 1
                if any(s in ('twoline', 'block3', 'blankinside') for s in seq):
                    acc.flags['multiline'] += 1
                if big:
                    acc.flags['large'] += 1
                acc.outcomes['%s/%d-cuts' % ('viol:' + viol[0] if viol else 'ok', len(obs.get('cuts', ())))] += 1
                if viol:
                    acc.violation('model%s%s:%s:%s' % ('-awaited' if task.get('aio') else '', '-echo-on' if task.get('echo') else '', seq[len(obs['results']) - 1] if obs.get('results') else seq[0], viol[0]),
                                  '%s | cuts %r' % (viol[1], obs.get('cuts')), dict(task=task, seq=list(seq), choices=ch.choices()))
    acc.states += 1
    acc.sample(dict(task=task, seq=['incomplete', 'three', 'twoline'], cuts=['inside-prompt']))
    return acc


def replay(spec):
    from mc.explore import unjson
    spec = unjson(spec)
    task = spec['task']
    out = {'violation': None}
    if spec.get('real'):
        acc = Acc()
        t = dict(task, parts=1, part=0, tier='thorough')
        run_real(t, acc, only_seq=spec['seq'])
        for k, v in acc.violations.items():
            if v[0]['replay']['seq'] == spec['seq']:
                out['violation'] = {'key': k, 'msg': v[0]['msg']}
        return out
    seq = tuple(spec['seq'])
    obs, viol = run_case(Chooser(spec['choices']), seq, maxcuts=1 if 'big300k' in seq else 2, use_aio=bool(task.get('aio')), echo_on=bool(task.get('echo')), maxread=task_maxread(task))
    out['observation'] = obs
    if viol:
        out['violation'] = {'key': 'model%s%s:%s:%s' % ('-awaited' if task.get('aio') else '', '-echo-on' if task.get('echo') else '', seq[len(obs['results']) - 1] if obs.get('results') else seq[0], viol[0]), 'msg': viol[1]}
    return out
