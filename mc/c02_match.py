"""C02 -- a reported match is genuine, leftmost, lowest-index on ties.

Complete enumeration (no sampling): ordered pattern lists x streams x every
splitting into reads x search window x searcher kind x a preceding call that
leaves a non-initial (trimmed) buffer at every possible point of the stream.
The real expect/expect_exact run on the ScriptSpawn seam; every successful
return is judged against independent re/str.find searches of the text that was
searchable at that read.
"""
import itertools
import re

from pexpect import EOF, TIMEOUT

from mc import refs
from mc.runner import Acc
from mc.script_spawn import ScriptSpawn, install_clock
from mc.vclock import CLOCK

PROPERTY = 'C02'
RULE = ('case = (searcher kind, ordered pattern list with markers, stream, splitting, window, '
        'preceding-call variant, mode); every case is executed once; non-trivial = at least one '
        'successful match was returned and judged; distinct by construction')
ASSUMPTIONS = ['patterns from the listed pools (no lookbehind / ^ under a window, whose meaning depends on text outside the searched slice)',
               'alphabet {a,b}, stream length bound as in bounds']
REQUIRED_FLAGS = {'tie_at_start': 1, 'boundary_inside_match': 1, 'marker_before_match': 1,
                  'zero_width': 1, 'prior_trimmed': 1, 'window_smaller_than_pending_at_call': 1,
                  'instance_window_overridden_per_call': 1}

RE_POOL = ['a', 'ab', 'b', 'a|ab', 'ab|a', 'b*', '(a)(b)?', '[ab]b', 'a$', 'aba']
EX_POOL = ['a', 'ab', 'b', 'ba', 'aba', '']


def bounds(tier):
    q = tier == 'quick'
    return dict(max_list_len=2 if q else 3, max_stream=4 if q else 5, windows=[None, 2, 3, 'None then 2', '3 then 1'],
                re_pool=RE_POOL, exact_pool=EX_POOL,
                prior=['none', 'exact-bb-timeout@every-chunk'] + ([] if q else ['re-bb-W1-timeout@every-chunk']))


def tasks(tier):
    out = []
    for kind, pool in (('re', RE_POOL), ('exact', EX_POOL)):
        for first in pool:
            out.append(dict(kind=kind, first=first, mode='bytes', tier=tier))
    for kind, pool in (('re', RE_POOL), ('exact', EX_POOL)):
        for first in pool:
            out.append(dict(kind=kind, first=first, mode='utf-8', tier=tier))
    # an instance-level window together with a per-call window that overrides it (None, larger, or -1 = "use the instance's")
    for kind, pool in (('re', RE_POOL), ('exact', EX_POOL)):
        for first in pool:
            out.append(dict(kind=kind, first=first, mode='bytes', tier=tier, inst_sw=1))
    return out


def pattern_lists(kind, first, maxlen, mode_small):
    pool = RE_POOL if kind == 're' else EX_POOL
    firsts = [first] if first is not None else pool
    lists = []
    for f in firsts:
        lists.append((f,))
        if mode_small:
            # unicode mode: lists up to 2 only
            for p in pool:
                lists.append((f, p))
            continue
        for n in range(2, maxlen + 1):
            for rest in itertools.product(pool, repeat=n - 1):
                lists.append((f,) + rest)
    out = list(lists)
    # markers inserted at every position of lists of length <= 2 (indices shift)
    for l in lists:
        if len(l) <= 2:
            for mk in ('EOF', 'TIMEOUT'):
                for pos in range(len(l) + 1):
                    out.append(l[:pos] + (mk,) + l[pos:])
    # when `first` is fixed, a marker inserted at position 0 is still owned by this task
    return out


def streams(maxn):
    for n in range(1, maxn + 1):
        for t in itertools.product('ab', repeat=n):
            yield ''.join(t)


MARK = {'EOF': EOF, 'TIMEOUT': TIMEOUT}


def run_case(acc, task, names, stream, cuts, W, prior, check=True):
    """Run one case; returns list of observations (for replay) and records violations."""
    CLOCK.reset()
    enc = None if task['mode'] == 'bytes' else task['mode']
    S = (lambda s: s.encode('ascii')) if enc is None else (lambda s: s)
    kind = task['kind']
    chunks = refs.split_at(stream.encode('ascii'), cuts)
    pos = [0]
    limit = [0]
    received = []

    def answer(size, timeout):
        if pos[0] < limit[0]:
            c = chunks[pos[0]]
            pos[0] += 1
            received.append(c)
            return c
        return TIMEOUT

    sp = ScriptSpawn(answer, timeout=5, encoding=enc)
    if task.get('inst_sw') is not None:
        sp.searchwindowsize = task['inst_sw']
        acc.flags['instance_window_overridden_per_call'] += 1
    pats = [MARK[n] if n in MARK else S(n) for n in names]
    refpats = [MARK[n] if n in MARK else (re.compile(S(n), re.DOTALL) if kind == 're' else S(n))
               for n in names]
    pending = S('')
    obs = []
    viols = []
    if prior is not None:
        pk, j = prior
        limit[0] = j
        if pk == 'exact':
            sp.expect_exact([S('bb'), TIMEOUT], timeout=5)
        else:
            sp.expect([S('bb'), TIMEOUT], timeout=5, searchwindowsize=1)
        got = b''.join(received)
        got = got if enc is None else got.decode(enc)
        pending = sp.buffer if sp.after is not TIMEOUT else got
        if len(sp._buffer.getvalue()) < len(sp._before.getvalue()):
            acc.flags['prior_trimmed'] += 1
    limit[0] = len(chunks)
    judged = 0
    Wseq = tuple(W) if isinstance(W, (tuple, list)) else (W,)      # the window may change from call to call
    for _round in range(len(stream) + 3):
        del received[:]
        P = pending
        Wcall = Wseq[min(_round, len(Wseq) - 1)]
        W = task.get('inst_sw') if Wcall == -1 else Wcall      # the window in force for this call
        if W and len(P) > W:
            acc.flags['window_smaller_than_pending_at_call'] += 1
        try:
            if kind == 're':
                i = sp.expect(pats, timeout=5, searchwindowsize=Wcall)
            else:
                i = sp.expect_exact(pats, timeout=5, searchwindowsize=Wcall)
        except (EOF, TIMEOUT) as e:
            obs.append(('raised', type(e).__name__))
            break
        if sp.after is TIMEOUT or sp.after is EOF:
            obs.append(('marker', i))
            break
        got = b''.join(received)
        D = got if enc is None else got.decode(enc)
        T = P + D
        o = dict(i=i, before=sp.before, after=sp.after, buffer=sp.buffer,
                 match_index=sp.match_index, T=T)
        obs.append(o)
        judged += 1
        Stext = T[-W:] if W else T
        off = len(T) - len(Stext)
        k = len(sp.before)
        bad = None
        if not isinstance(i, int) or not (0 <= i < len(names)) or names[i] in MARK:
            bad = ('bad-index', 'returned %r for %r' % (i, names))
        elif sp.match_index != i:
            bad = ('match_index', 'match_index %r != returned %r' % (sp.match_index, i))
        elif sp.before + sp.after + sp.buffer != T or k < off:
            bad = ('ledger', 'before=%r after=%r buffer=%r vs text %r (window starts at %d)'
                   % (sp.before, sp.after, sp.buffer, T, off))
        else:
            st = k - off
            mine = refs.leftmost(kind, refpats[i], Stext)
            if mine is None or mine[0] != st or Stext[mine[0]:mine[1]] != sp.after:
                bad = ('not-genuine', 'pattern %r reported at %d with after=%r in searched text %r; '
                       'independent leftmost=%r' % (names[i], st, sp.after, Stext,
                                                     mine and (mine[0], mine[1])))
            else:
                if kind == 're':
                    m = sp.match
                    ref = mine[2]
                    if (m is None or not hasattr(m, 'group') or m.group(0) != sp.after
                            or m.groups() != ref.groups()
                            or (len(m.string) - m.end()) != (len(Stext) - ref.end())
                            or (m.end() - m.start()) != (ref.end() - ref.start())
                            or m.re.pattern != ref.re.pattern):
                        bad = ('match-attr', 'match attribute %r does not describe the occurrence %r'
                               % (m, ref))
                else:
                    if sp.match != S(names[i]) or sp.after != S(names[i]):
                        bad = ('match-attr', 'exact match attr %r / after %r, literal %r'
                               % (sp.match, sp.after, names[i]))
                ties = 0
                if bad is None:
                    for jx, rp in enumerate(refpats):
                        if rp is EOF or rp is TIMEOUT:
                            continue
                        r = refs.leftmost(kind, rp, Stext)
                        if r is None:
                            continue
                        if r[0] < st:
                            bad = ('not-leftmost', 'pattern %d %r occurs at %d < reported %d (pattern %d) in %r'
                                   % (jx, names[jx], r[0], st, i, Stext))
                            break
                        if r[0] == st:
                            ties += 1
                            if jx < i:
                                bad = ('not-lowest-index', 'pattern %d %r also matches at %d but %d was reported, text %r'
                                       % (jx, names[jx], st, i, Stext))
                                break
                    if ties >= 2:
                        acc.flags['tie_at_start'] += 1
                if bad is None:
                    if any(n in MARK for n in names[:i]):
                        acc.flags['marker_before_match'] += 1
                    if sp.after == S(''):
                        acc.flags['zero_width'] += 1
                    p = len(P)
                    for c in received:
                        if k < p < k + len(sp.after):
                            acc.flags['boundary_inside_match'] += 1
                            break
                        p += len(c)
        if bad:
            viols.append(bad)
            if check:
                key = '%s:W=%s:%s:%s' % (kind, W, bad[0], names[i] if isinstance(i, int) and 0 <= i < len(names) else '?')
                acc.violation(key, bad[1], dict(task=task, names=list(names), stream=stream,
                                                cuts=list(cuts), W=(list(Wseq) if len(Wseq) > 1 else Wseq[0]), prior=prior))
            break
        pending = sp.buffer
        if not sp.after and not D and pending == P:
            # zero-width match that consumed nothing and read nothing: fix-point
            break
    return obs, viols, judged


def run_task(task):
    install_clock()
    acc = Acc()
    b = bounds(task['tier'])
    small = task['mode'] != 'bytes'
    lists = pattern_lists(task['kind'], task['first'], b['max_list_len'], small)
    strs = list(streams(b['max_stream']))
    priors_kinds = ['exact'] + (['re1'] if task['tier'] != 'quick' else [])
    for names in lists:
        for stream in strs:
            for cuts in refs.splittings(len(stream)):
                nch = len(cuts) + 1
                priors = [None] + [(pk, j) for pk in priors_kinds for j in range(nch + 1)]
                for W in ((None, 2, 3, (None, 2), (3, 1)) if task.get('inst_sw') is None else (None, 3, -1, (-1, None))):
                    for prior in (priors if not isinstance(W, tuple) and task.get('inst_sw') is None else [None]):
                        obs, viols, judged = run_case(acc, task, names, stream, cuts, W, prior)
                        acc.execs += 1
                        acc.transitions += len(obs)
                        if judged:
                            acc.nontrivial += 1
                        acc.outcomes['judged=%d,end=%s' % (min(judged, 3), 'viol' if viols else
                                                           (obs[-1][0] if obs and isinstance(obs[-1], tuple) else 'fix'))] += 1
        acc.states += 1
    acc.sample(dict(task=task, names=lists[len(lists) // 2], stream=strs[-1], cuts=[1, 3], W=2, prior=['exact', 1]))
    return acc


def replay(spec):
    from mc.explore import unjson
    spec = unjson(spec)
    install_clock()
    acc = Acc()
    prior = tuple(spec['prior']) if spec['prior'] is not None else None
    obs, viols, judged = run_case(acc, spec['task'], tuple(spec['names']), spec['stream'],
                                  spec['cuts'], spec['W'], prior)
    out = {'observations': [o if isinstance(o, tuple) else {k: v for k, v in o.items()} for o in obs],
           'violation': None}
    if acc.violations:
        key = list(acc.violations)[0]
        out['violation'] = {'key': key, 'msg': acc.violations[key][0]['msg']}
    return out
