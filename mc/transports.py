"""One constructor for every transport class on the controlled environment.

make(env, name, **spawn_kw) -> Link with
  .sp                      the real pexpect object
  .w(data, at=None)        schedule a peer write        (env action)
  .close(at=None)          peer closes / hangs up
  .exit(code, at=None)     peer process exits (pty / popen; close elsewhere)
  .now_w(data)             peer writes right now
  .received()              every byte the library has sent to the peer so far
  .finish()                release everything
"""
import os
import socket

from mc import env as E

NAMES = ['pty-select', 'pty-poll', 'fd-select', 'fd-poll', 'popen', 'socket']


class Link(object):
    def __init__(self, env, name, spawn_kw=None, **kw):
        self.env = env
        self.name = name
        self.sock = None
        self.peer = None
        self.proc = None
        self.rbuf = b''
        E.install()
        if name.startswith('pty'):
            sp = E.pty_spawn(env, use_poll=(name == 'pty-poll'), spawn_kw=spawn_kw, **kw)
            self.wfd = sp.hs_slave
            self.proc = sp.hs_proc
        elif name.startswith('fd'):
            from pexpect import fdpexpect
            a, b = socket.socketpair()
            env.sockets[id(b)] = b
            fd = env.own(a.detach())
            if name == 'fd-fileobj':
                # a file object instead of a number; the object does not own the descriptor (closefd=False)
                import io
                self.fobj = io.open(fd, 'rb', buffering=0, closefd=False)
                sp = fdpexpect.fdspawn(self.fobj, **kw)
            else:
                sp = fdpexpect.fdspawn(fd, use_poll=(name == 'fd-poll'), **kw)
            self.peer = b
            self.wfd = None
        elif name == 'popen':
            from pexpect import popen_spawn
            E.install_popen()
            sp = popen_spawn.PopenSpawn(['fake'], **kw)
            self.wfd = env.popen.peer_out
            self.proc = env.popen.proc
        elif name == 'socket':
            from pexpect import socket_pexpect
            a, b = socket.socketpair()
            self.sock = E.SocketProxy(a)
            self.peer = b
            env.sockets[id(a)] = a
            env.sockets[id(b)] = b
            sp = socket_pexpect.SocketSpawn(self.sock, **kw)
            self.wfd = None
        else:
            raise KeyError(name)
        self.sp = sp

    # -- peer -> library ---------------------------------------------------
    def _w(self, data):
        if self.peer is not None:
            return ('fn', (lambda d=data: self.peer.sendall(d) if d else None), None)
        return ('w', data, self.wfd)

    def _close(self):
        if self.peer is not None:
            return ('fn', (lambda: self.peer.close()), None)
        return ('hup', None, self.wfd)

    def _exit(self, code):
        if self.proc is not None:
            return ('exit', (self.proc, code), None)
        return self._close()

    def _add(self, act, at):
        k, a, fd = act
        self.env.add(k, a, at=at, fd=fd)

    def w(self, data, at=None):
        self._add(self._w(data), at)

    def close(self, at=None):
        self._add(self._close(), at)

    def exit(self, code=0, at=None):
        self._add(self._exit(code), at)

    def now_w(self, data):
        k, a, fd = self._w(data)
        self.env.fire(E.Action(k, a, None, fd))

    def now_close(self):
        k, a, fd = self._close()
        self.env.fire(E.Action(k, a, None, fd))

    def now_exit(self, code=0):
        k, a, fd = self._exit(code)
        self.env.fire(E.Action(k, a, None, fd))

    # -- library -> peer ---------------------------------------------------
    def received(self):
        """All bytes the library wrote so far, as the peer sees them."""
        import select as _select
        name = self.name
        if name.startswith('pty'):
            # master -> slave delivery is asynchronous: push a sentinel through the same FIFO
            slave = self.wfd
            if slave not in self.env.fds:
                return self.rbuf
            master = self.sp.hs_master
            sentinel = b'\x00\xffSENTINEL\xff\x00'
            try:
                os.write(master, sentinel)
            except OSError:
                return self.rbuf
            buf = b''
            while not buf.endswith(sentinel):
                buf += os.read(slave, 65536)
            self.rbuf += buf[:-len(sentinel)]
            return self.rbuf
        if name == 'popen':
            fd = self.env.popen.peer_in
            while _select.select([fd], [], [], 0)[0]:
                d = os.read(fd, 65536)
                if not d:
                    break
                self.rbuf += d
            return self.rbuf
        s = self.peer
        while True:
            try:
                if not _select.select([s], [], [], 0)[0]:
                    break
                d = s.recv(65536)
            except OSError:
                break
            if not d:
                break
            self.rbuf += d
        return self.rbuf

    def finish(self):
        env = self.env
        try:
            if self.name == 'popen':
                E.finish_popen(env)
            if self.name.startswith('pty'):
                E.finalize_pty(self.sp)
        finally:
            env.finish()


class Drain(object):
    """A free-running real thread that plays the 'reading peer' for payloads larger than the
    kernel buffer.  Its scheduling cannot change the total that is compared."""

    def __init__(self, link, delay=0):
        import threading
        self.link = link
        self.delay = delay      # the peer starts reading this late (real seconds): the sender meets a full buffer
        self.stop = False
        self.buf = b''
        self.error = None
        self.trace = []
        name = link.name
        if name.startswith('pty'):
            self.fd = link.wfd
        elif name == 'popen':
            self.fd = link.env.popen.peer_in
        else:
            self.fd = link.peer.fileno()
        self.t = threading.Thread(target=self.run)
        self.t.daemon = True
        self.t.start()

    def run(self):
        try:
            self._run()
        except BaseException as e:       # noqa
            self.error = repr(e)

    def _run(self):
        import select as _select
        if self.delay:
            import time as _t
            t_end = _t.time() + self.delay
            while _t.time() < t_end and not self.stop:
                _t.sleep(0.005)
        while True:
            r = _select.select([self.fd], [], [], 0.02)[0]
            self.trace.append((bool(r), self.stop))
            if r:
                try:
                    d = os.read(self.fd, 65536)
                except OSError:
                    return
                if not d:
                    self.why = 'eof'
                    return
                self.buf += d
            elif self.stop:
                # stop may have been set after this select() returned: one final pass
                while _select.select([self.fd], [], [], 0)[0]:
                    d = os.read(self.fd, 65536)
                    if not d:
                        break
                    self.buf += d
                self.why = 'stop'
                return

    def abort(self):
        """Stop the thread without collecting (idempotent): a leaked drain would steal the next execution's data."""
        self.stop = True
        if self.t.is_alive():
            self.t.join(15)

    def finish(self):
        link = self.link
        if link.name.startswith('pty'):
            sentinel = b'\x00\xffSENTINEL\xff\x00'
            import select as _select
            left = sentinel
            while left:         # the code under test may have made the descriptor non-blocking
                _select.select([], [link.sp.hs_master], [], 5)
                try:
                    left = left[os.write(link.sp.hs_master, left):]
                except BlockingIOError:
                    pass
            import time as _t
            t_end = _t.time() + 10
            while not self.buf.endswith(sentinel) and _t.time() < t_end:
                _t.sleep(0.001)
            self.stop = True
            self.t.join()
            if self.buf.endswith(sentinel):
                self.buf = self.buf[:-len(sentinel)]
        else:
            import fcntl, termios, struct
            try:
                self.inq = struct.unpack('i', fcntl.ioctl(self.fd, termios.FIONREAD, b'\0\0\0\0'))[0]
            except Exception as e:
                self.inq = repr(e)
            self.alive_at_finish = self.t.is_alive()
            self.stop = True
            self.t.join()
        link.rbuf += self.buf
        self.link.drain_why = (getattr(self, 'why', None), self.fd, len(self.buf), getattr(self, 'inq', None), getattr(self, 'alive_at_finish', None), self.trace[-5:])
        if self.error:
            raise E.HarnessError('drain thread failed: %s' % self.error)
        return link.rbuf
