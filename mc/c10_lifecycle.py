"""C10 -- lifecycle safety.  All operation sequences up to a bound x child dispositions x
signal latency x transports on the controlled environment (real descriptors, simulated
process table); invariants evaluated after every operation; a decoy file takes over the
released descriptor number so that stale handles are caught red-handed."""
import itertools
import signal

from mc import env as E
from mc import lifecycle as L
from mc.explore import dfs, Chooser, Cut
from mc.runner import Acc

PROPERTY = 'C10'
RULE = ('case = (transport, child disposition, operation sequence, placement of a mid-sequence exit and signal latency choices); '
        'non-trivial = the sequence contains close/terminate/kill/del or the child dies mid-sequence')
ASSUMPTIONS = ['process table simulated and validated against the real kernel (see C09 evidence); a fatal signal takes effect '
               'immediately or after a latency below delayafterterminate (choice point)',
               'descriptors are real; "whatever now owns the old descriptor number" is a decoy file dup2()ed onto it']
REQUIRED_FLAGS = {'decoy_placed': 1, 'ignores': 1, 'stopped': 1, 'mid_exit': 1, 'latency_choice': 1, 'delay0': 1, 'delay0-ignores': 1}

PTY_OPS = ['isalive', 'kill_term', 'kill_kill', 'terminate', 'terminate_force', 'close', 'close_noforce', 'sendeof',
           'expect_eof', 'send', 'rnb', 'with_exit', 'del', 'wait', 'closed_logfile', 'send_closing_log']
FD_OPS = ['isalive', 'close', 'send', 'expect_eof', 'rnb', 'with_exit', 'del', 'closed_logfile', 'send_closing_log']
DISPOSITIONS = ['normal', 'ignores', 'stopped', 'exited', 'exits-mid']      # + 'peer-closes' (fd/socket), 'kill-esrch' (fault answer)


def bounds(tier):
    return dict(pty_ops=PTY_OPS, fd_ops=FD_OPS, dispositions=DISPOSITIONS, max_len=3 if tier == 'quick' else 4,
                transports=['pty-select', 'pty-poll(len<=2)', 'fd-select', 'fd-fileobj (fdspawn given a file object that does not own its descriptor)', 'socket'], latency=[0.0, 0.05, 0.095], zero_grace_periods=True)


def tasks(tier):
    out = []
    for disp in DISPOSITIONS:
        for first in PTY_OPS:
            out.append(dict(transport='pty-select', disposition=disp, first=first, tier=tier))
    for disp in ('normal', 'ignores'):
        out.append(dict(transport='pty-poll', disposition=disp, first=None, tier=tier))
    for tr in ('fd-select', 'socket', 'fd-fileobj'):
        out.append(dict(transport=tr, disposition='normal', first=None, tier=tier))
        out.append(dict(transport=tr, disposition='peer-closes', first=None, tier=tier))
    for first in ('terminate', 'terminate_force', 'kill_term'):
        out.append(dict(transport='pty-select', disposition='kill-esrch', first=first, tier=tier))
    # grace periods set to zero (documented attributes; signals then take effect at once in the process table),
    # for an ordinary child and for one that only SIGKILL stops
    for disp in ('delay0', 'delay0-ignores'):
        for first in ('terminate', 'terminate_force', 'close', 'with_exit', 'kill_term'):
            out.append(dict(transport='pty-select', disposition=disp, first=first, tier=tier))
    return out


def run_seq(ch, task, seq):
    r = None
    viol = None
    obs = {}
    try:
        disp = task['disposition']
        fate = ('exit', 3) if disp in ('exits-mid', 'kill-esrch') else None
        delay0 = disp.startswith('delay0')
        r = L.Run(ch, task['transport'], disposition={'exits-mid': 'normal', 'delay0': 'normal', 'delay0-ignores': 'ignores'}.get(disp, disp),
                  latencies=(0.0,) if delay0 else (0.0, 0.05, 0.095), fate=fate)
        if delay0:
            r.sp.delayafterterminate = 0
            r.sp.delayafterclose = 0
            r.sp.ptyproc.delayafterterminate = 0
            r.sp.ptyproc.delayafterclose = 0
        for op in seq:
            if op == 'wait' and r.proc is not None and r.proc.alive() and not r.env.script:
                # documented to block until the child exits: not executed on a child that never will
                r.events.append((op, 'skipped-would-block', ''))
                continue
            if r.deleted:
                break
            r.do(op)
            if r.viol:
                break
        viol = r.viol
        obs = dict(events=r.events, decoy=r.decoy is not None, pstate=r.proc.state if r.proc is not None else 'n/a')
    except E.Hang as h:
        obs = dict(events=r.events if r else [], hang=str(h))
        viol = ('hang', str(h))
    except Cut as c:
        obs = dict(events=r.events if r else [])
        viol = ('horizon', str(c))
    finally:
        if r is not None:
            r.finish()
    return obs, viol


def run_task(task):
    acc = Acc()
    q = task['tier'] == 'quick'
    tr = task['transport']
    ops = PTY_OPS if tr.startswith('pty') else FD_OPS
    maxlen = 3 if q else 4
    if tr == 'pty-poll':
        maxlen = 2
    if task['first'] is None:
        seqs = [s for n in range(1, maxlen + 1) for s in itertools.product(ops, repeat=n)]
    else:
        seqs = [(task['first'],) + s for n in range(0, maxlen) for s in itertools.product(ops, repeat=n)]
    for seq in seqs:
        if 'del' in seq[:-1]:
            continue
        def run(ch):
            return run_seq(ch, task, seq)
        for ch, (obs, viol) in dfs(run):
            acc.execs += 1
            acc.transitions += len(obs.get('events', ()))
            nt = any(o in ('close', 'close_noforce', 'terminate', 'terminate_force', 'kill_term', 'kill_kill', 'del', 'with_exit') for o in seq)
            if obs.get('decoy'):
                acc.flags['decoy_placed'] += 1
            acc.flags[task['disposition']] += 1
            if task['disposition'] == 'exits-mid':
                acc.flags['mid_exit'] += 1
                nt = True
            if ch.deviations():
                acc.flags['latency_choice'] += 1
            if nt:
                acc.nontrivial += 1
            acc.outcomes['%s/%s/%s' % ('viol:' + viol[0] if viol else 'ok', obs.get('pstate'),
                                       obs['events'][-1][1] if obs.get('events') else '-')] += 1
            if viol:
                last = obs['events'][-1][0] if obs.get('events') else seq[0]
                acc.violation('%s:%s:%s:%s' % (tr, task['disposition'], last, viol[0]),
                              'sequence %r: %s | events %r' % (seq, viol[1], obs.get('events')),
                              dict(task=task, seq=list(seq), choices=ch.choices()))
    acc.states += 1
    acc.sample(dict(task=task, seq=['close_noforce', 'send', 'close']))
    return acc


def replay(spec):
    from mc.explore import unjson
    spec = unjson(spec)
    task = spec['task']
    obs, viol = run_seq(Chooser(spec['choices']), task, tuple(spec['seq']))
    out = {'observation': obs, 'violation': None}
    if viol:
        last = obs['events'][-1][0] if obs.get('events') else spec['seq'][0]
        out['violation'] = {'key': '%s:%s:%s:%s' % (task['transport'], task['disposition'], last, viol[0]), 'msg': viol[1]}
    return out
