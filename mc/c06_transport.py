"""C06 -- transport fidelity.  Schedule exploration on the controlled environment:
every placement of the peer's actions (write, write, hang-up / close, exit)
between the reader's intercepted system calls (readiness poll, read/recv,
waitpid, timed wait, queue polling, reader-thread step) is enumerated for every
transport; the bytes returned must be exactly the bytes written, EOF only after
all of them, no chunk larger than requested, socket timeout restored."""
import os
import socket

import pexpect
from pexpect import EOF, TIMEOUT

from mc import env as E
from mc.explore import dfs, Cut, Chooser
from mc.runner import Acc

PROPERTY = 'C06'
RULE = ('case = one complete schedule (placement of every peer action relative to every intercepted call of the reader) '
        'for one configuration (transport, read size, write sizes, peer ending, driver); non-trivial = at least one peer '
        'action was placed between two system calls of a single library call (not merely between calls of the driver)')
ASSUMPTIONS = ['peer scripts of <= 4 actions; full enumeration of placements (no preemption bound) when the two writes total <= 3*size+1 bytes, '
               'deviation bound 2 for longer ones (thorough tier only; counted in bounded_pairs); large outputs '
               '(thorough tier) are explored with deviation bound 1 because the kernel chooses the chunking there',
               'pty slave in raw mode (byte exact); fake pid + simulated process table (validated against the real kernel by mc.conform_procsim)',
               'scheduling granularity = intercepted calls; PopenSpawn reader thread steps = one os.read + Queue.put']
REQUIRED_FLAGS = {'action_inside_call': 1, 'eof_after_data': 1, 'coalesced_writes': 1, 'split_write': 1,
                  'dead_child_repoll': 1, 'unicode_reads_smaller_than_a_character': 1}

T = 0.5


def payload(n, base, enc=None):
    if enc:
        # n characters, every third one ASCII, the others two bytes long: small reads end inside characters
        return ''.join(chr(base + (i % 26)) if i % 3 == 2 else chr(0xe0 + (i % 26)) for i in range(n)).encode(enc)
    return bytes((base + (i % 26)) for i in range(n))


def bounds(tier):
    return dict(sizes=[1, 2, 7, 2000], transports=['pty-select', 'pty-poll', 'fd-pipe', 'fd-pipe-poll', 'popen', 'socket'],
                endings=['hup+exit', 'exit', 'hup,exit-later', 'close'], drivers=['read_nonblocking loop', 'expect(EOF)'],
                write_sizes='{0,1,size-1,size,size+1,3*size}^2' if tier != 'quick' else 'subset',
                large_outputs=[] if tier == 'quick' else [4095, 4096, 4097, 65536, 300000])


def tasks(tier):
    q = tier == 'quick'
    out = []
    for tr in ('pty-select', 'pty-poll', 'fd-pipe', 'fd-pipe-poll', 'popen', 'socket'):
        for size in ((2, 2000) if q else (1, 2, 7, 2000)):
            lens = sorted(set([0, 1, max(0, size - 1), size, size + 1, 3 * size]))
            if q:
                pairs = [(1, 1), (size + 1, 0), (size, size + 1)]
            else:
                pairs = [(a, b) for a in lens for b in lens if not (size == 1 and a + b > 4)]
                if size == 2000:
                    pairs = [(a, b) for a, b in pairs if a + b <= 8001]
            if size == 1:
                pairs = [(a, b) for a, b in pairs if a + b <= 4]
            ends = ['hup+exit', 'exit', 'hup,exit-later'] if tr.startswith('pty') else \
                ['close', 'exit'] if tr == 'popen' else ['close']
            for end in ends:
                for drv in ('rnb', 'expect'):
                    if len(ends) == 3 and end == 'hup+exit':
                        for pr in pairs:       # 4-action scripts are the big ones: one task per write-size pair
                            out.append(dict(transport=tr, size=size, pairs=[pr], ending=end, driver=drv))
                    else:
                        out.append(dict(transport=tr, size=size, pairs=pairs, ending=end, driver=drv))
    # a polling reader (timeout=0): the branches of read_nonblocking that depend on timeout != 0 are skipped
    for tr in ('pty-select', 'pty-poll', 'fd-pipe', 'socket'):
        for end in ((['exit', 'hup+exit'] if tr.startswith('pty') else ['close'])):
            out.append(dict(transport=tr, size=2000, pairs=[(1, 1)] if q else [(1, 1), (3, 0), (2000, 5)], ending=end, driver='rnb0'))
    out.append(dict(transport='popen', size=2000, pairs=[(1, 1)] if q else [(1, 1), (3, 0), (2000, 5)], ending='exit', driver='rnb0'))
    # readlines() (readline / iteration go through the same loop) with an unterminated last line
    for tr in ('pty-select', 'fd-pipe', 'popen', 'socket'):
        out.append(dict(transport=tr, size=2000, pairs=[(1, 1), (3, 0)], ending='exit' if tr in ('pty-select', 'popen') else 'close', driver='readlines'))
    # unicode mode with reads smaller than a character (an empty decoded chunk is not the end of the stream)
    for tr in ('pty-select', 'fd-pipe', 'popen', 'socket'):
        for size in ((1,) if q else (1, 3)):
            for drv in ('rnb', 'expect', 'rnb0'):
                if drv == 'rnb0' and tr == 'popen' and False:
                    continue
                out.append(dict(transport=tr, size=size, pairs=[(1, 1), (2, 1)] if q else [(1, 1), (2, 1), (3, 2), (0, 2)],
                                ending='exit' if tr in ('pty-select', 'popen') else 'close', driver=drv, enc='utf-8'))
    # short reads (the kernel may return fewer bytes than are available): pty transports, one per execution
    for tr in ('pty-select', 'pty-poll'):
        for drv in ('rnb', 'expect'):
            out.append(dict(transport=tr, size=2000, pairs=[(5, 4)] if q else [(5, 4), (9, 0), (2000, 7)], ending='exit', driver=drv, short_reads=1))
    if not q:
        for tr in ('pty-select', 'fd-pipe', 'popen', 'socket'):
            for n in (4095, 4096, 4097, 65536, 300000):
                out.append(dict(transport=tr, size=2000, large=n, ending='exit' if tr != 'socket' and tr != 'fd-pipe' else 'close',
                                driver='expect', pairs=[]))
    return out


class Setup(object):
    """Builds the spawn object + peer script for one configuration inside an Env."""

    def __init__(self, env, task, x, y):
        self.env = env
        tr = task['transport']
        size = task['size']
        end = task['ending']
        self.sock = None
        if tr.startswith('pty'):
            sp = E.pty_spawn(env, maxread=size, timeout=T, use_poll=(tr == 'pty-poll'), encoding=task.get('enc'))
            fd, proc = sp.hs_slave, sp.hs_proc
            env.add('w', x, fd=fd)
            env.add('w', y, fd=fd)
            if end == 'hup+exit':
                env.add('hup', fd=fd)
                env.add('exit', (proc, 3))
            elif end == 'exit':
                env.add('exit', (proc, 0))
            else:
                env.add('hup', fd=fd)
                proc.die_at = (E.CLOCK.now + 3 * T, 7 << 8)
        elif tr.startswith('fd-pipe'):
            from pexpect import fdpexpect
            r, w = env.pipe()
            sp = fdpexpect.fdspawn(r, maxread=size, timeout=T, use_poll=tr.endswith('poll'), encoding=task.get('enc'))
            env.add('w', x, fd=w)
            env.add('w', y, fd=w)
            env.add('hup', fd=w)
        elif tr == 'popen':
            from pexpect import popen_spawn
            E.install_popen()
            env.popen_time_sched = True
            sp = popen_spawn.PopenSpawn(['fake'], maxread=size, timeout=T, encoding=task.get('enc'))
            pp = env.popen
            q = sp._read_queue
            real_get = q.get_nowait

            def get_nowait():
                env.popen_dirty = True
                return real_get()
            q.get_nowait = get_nowait
            env.add('w', x, fd=pp.peer_out)
            env.add('w', y, fd=pp.peer_out)
            if end == 'close':
                env.add('hup', fd=pp.peer_out)
            else:
                env.add('exit', (pp.proc, 0))
        else:
            from pexpect import socket_pexpect
            a, b = socket.socketpair()
            a.settimeout(7.5)
            self.sock = E.SocketProxy(a)
            self.peer_sock = b
            env.sockets[id(a)] = a
            env.sockets[id(b)] = b
            env.fds.add(a.fileno())
            sp = socket_pexpect.SocketSpawn(self.sock, maxread=size, timeout=T, encoding=task.get('enc'))
            # the owner of the socket changes its timeout after handing it over: THAT is the setting to preserve
            self.sock.settimeout(3.25)
            env.add('fn', lambda: b.sendall(x) if x else None)
            env.add('fn', lambda: b.sendall(y) if y else None)
            env.add('fn', lambda: b.close())
        self.sp = sp
        self.tr = tr


def run_config(ch, task, x, y, record=None):
    """One execution.  Returns (observation dict, violation or None)."""
    E.install()
    env = E.Env(ch)
    env.short_reads = task.get('short_reads', 0)      # environment answer: a read returns fewer bytes than available
    size = task['size']
    obs = {'chunks': [], 'end': None}
    viol = None
    st = None
    try:
        st = Setup(env, task, x, y)
        sp = st.sp
        enc = task.get('enc')
        want = x + y if not enc else (x + y).decode(enc)
        got = want[:0]
        timeouts = 0
        empties = 0
        calls = 0
        inside = False
        while True:
            calls += 1
            if calls > len(want) + 40:
                viol = ('livelock', 'reader made %d calls without reaching EOF' % calls)
                break
            n_actions_before = len(env.script)
            p0 = env.points
            env.popen_dirty = True
            try:
                if task['driver'] in ('rnb', 'rnb0'):
                    c = sp.read_nonblocking(size, T if task['driver'] == 'rnb' else 0)
                    if env.points - p0 > 1 and len(env.script) < n_actions_before:
                        inside = True
                    if not isinstance(c, type(want)):
                        viol = ('type', 'read_nonblocking returned %r' % (c,))
                        break
                    obs['chunks'].append(len(c))
                    if len(c) > size:
                        viol = ('oversize', 'read_nonblocking(%d) returned %d bytes' % (size, len(c)))
                        break
                    got += c
                    if not c:
                        empties += 1
                        if empties > 2:
                            force_progress(env)
                    if not want.startswith(got):
                        viol = ('corrupt', 'returned so far %r, written %r' % (got[-40:], want[:len(got)][-40:]))
                        break
                elif task['driver'] == 'readlines':
                    # the remaining read entry points on top of expect: everything up to EOF, also an unterminated last line
                    sp.timeout = T
                    got = got[:0].join(sp.readlines())
                    obs['end'] = 'EOF'
                    break
                else:
                    sp.expect(EOF, timeout=T)
                    if env.points - p0 > 1 and len(env.script) < n_actions_before:
                        inside = True
                    got = sp.before
                    obs['end'] = 'EOF'
                    break
            except EOF:
                obs['end'] = 'EOF'
                break
            except TIMEOUT:
                if env.points - p0 > 1 and len(env.script) < n_actions_before:
                    inside = True
                timeouts += 1
                if task['driver'] == 'rnb0':
                    # a polling reader: between two polls the peer gets on with its script
                    if timeouts > 12:
                        viol = ('no-eof', 'polling reader: TIMEOUT %d times although the peer finished' % timeouts)
                        break
                    if timeouts >= 2 and env.untimed_ready():
                        env.fire(env.script.pop(0))
                    continue
                if task['driver'] == 'expect':
                    got = sp.before
                if timeouts >= 2:
                    env.no_more_timeouts = True
                if timeouts > 6:
                    viol = ('no-eof', 'TIMEOUT %d times although the peer finished long ago' % timeouts)
                    break
            if st.sock is not None and st.sock.gettimeout() != 3.25:
                viol = ('socket-timeout', 'socket timeout left at %r (the owner had set 3.25)' % (st.sock.gettimeout(),))
                break
        if viol is None:
            if st.sock is not None and st.sock.gettimeout() != 3.25:
                viol = ('socket-timeout', 'socket timeout left at %r (the owner had set 3.25)' % (st.sock.gettimeout(),))
            elif got != want:
                sym = 'lost' if len(got) < len(want) else 'extra'
                viol = (sym, 'EOF after %d of %d bytes: got %r..., written %r...'
                        % (len(got), len(want), got[-30:], want[-30:]))
            elif not sp.flag_eof:
                viol = ('flag_eof', 'EOF raised but flag_eof is not set')
        obs['timeouts'] = timeouts
        obs['inside'] = inside
        obs['calls'] = list(env.calls)
        obs['got_len'] = len(got)
    except E.Hang as h:
        obs['end'] = 'hang'
        viol = ('hang', 'reader blocks for ever: %s' % h)
    except Cut as c:
        obs['end'] = 'cut'
        viol = ('horizon', str(c))
    except E.HarnessError:
        raise
    except Exception as e:
        obs['end'] = 'exc'
        viol = ('exception', 'unexpected %r' % (e,))
    finally:
        try:
            if st is not None and st.tr == 'popen':
                E.finish_popen(env)
            if st is not None and st.tr.startswith('pty'):
                E.finalize_pty(st.sp)
            if st is not None and st.tr.startswith('fd-pipe'):
                try:
                    os.close(st.sp.child_fd)
                except OSError:
                    pass
        finally:
            env.finish()
    obs['log'] = env.log
    return obs, viol


def force_progress(env):
    """After repeated empty reads (PopenSpawn never blocks) let the peer / reader thread move."""
    b = getattr(env, 'baton', None)
    if env.untimed_ready():
        env.fire(env.script.pop(0))
    elif b is not None and b.enabled():
        b.step()


def classify(obs):
    ch = obs['chunks']
    return '%s/t%d/%s' % (obs['end'], min(obs.get('timeouts', 0), 3), 'in' if obs.get('inside') else 'out')


def run_task(task):
    acc = Acc()
    size = task['size']
    if 'large' in task:
        return run_large(task, acc)
    for (a, b) in task['pairs']:
        x, y = payload(a, 65, task.get('enc')), payload(b, 97, task.get('enc'))
        if task.get('enc'):
            acc.flags['unicode_reads_smaller_than_a_character'] += 1

        def run(ch):
            return run_config(ch, task, x, y)
        n = 0
        # full enumeration of placements when the run is short; deviation bound 2 when the reader needs many
        # reads (the number of scheduling points, and with it the number of placements, grows with (a+b)/size)
        bound = None if (a + b) <= 3 * size + 1 else 2
        if bound is not None and not acc.extra.get('bounded_pairs'):
            acc.extra['bounded_pairs'] = 0
        if bound is not None:
            acc.extra['bounded_pairs'] += 1
        for ch, (obs, viol) in dfs(run, bound=bound):
            n += 1
            acc.execs += 1
            acc.transitions += len(obs.get('calls', ()))
            acc.outcomes[classify(obs)] += 1
            if obs.get('inside'):
                acc.nontrivial += 1
                acc.flags['action_inside_call'] += 1
            if obs['end'] == 'EOF' and a + b:
                acc.flags['eof_after_data'] += 1
            chunks = obs['chunks']
            if a and b and any(c > a for c in chunks[:1]) :
                acc.flags['coalesced_writes'] += 1
            if chunks and a > 1 and chunks[0] < a:
                acc.flags['split_write'] += 1
            calls = obs.get('calls', ())
            for i in range(len(calls) - 2):
                if calls[i] == 'waitpid' and calls[i + 1] in ('select', 'poll'):
                    acc.flags['dead_child_repoll'] += 1
                    break
            if viol:
                key = '%s%s:%s:%s:%s' % (task['transport'], '+utf-8' if task.get('enc') else '', task['driver'], task['ending'], viol[0])
                acc.violation(key, viol[1] + ' | schedule log %r' % (obs['log'],),
                              dict(task={k: v for k, v in task.items() if k != 'pairs'}, a=a, b=b, choices=ch.choices()))
        acc.states += 1
    acc.sample(dict(task={k: v for k, v in task.items() if k != 'pairs'}, writes=list(task['pairs'][0]) if task['pairs'] else None))
    return acc


LAST_POINTS = [0]


def run_large(task, acc):
    """Large outputs: a non-blocking peer writer refills the kernel buffer at scheduling points.
    The kernel chooses the chunking here, so this part is NOT called exhaustive: the default schedule
    (peer pumps at every scheduling point) plus every single deviation "the pump is skipped at the
    k-th scheduling point", k < 60."""
    n = task['large']
    data = payload(n, 65)
    for skip_at in [None] + list(range(60)):
        obs, viol = run_config_large(Chooser(()), task, data, skip_at)
        acc.execs += 1
        acc.transitions += max(1, LAST_POINTS[0])
        acc.outcomes['large:%s' % obs['end']] += 1
        acc.nontrivial += 1
        if viol:
            acc.violation('%s:large:%s' % (task['transport'], viol[0]), viol[1],
                          dict(task=task, large=n, skip_at=skip_at))
    acc.caps.append('large outputs (%d bytes, %s): deviation bound 1 (kernel-chosen chunking is not enumerated)' % (n, task['transport']))
    acc.states += 1
    return acc


def run_config_large(ch, task, data, skip_at=None):
    E.install()
    env = E.Env(ch)
    env.max_points = 2000000
    obs = {'end': None}
    viol = None
    st = None
    try:
        st = Setup(env, dict(task, ending='exit' if task['transport'] in ('pty-select', 'popen') else 'close'), b'', b'')
        del env.script[:]
        sp = st.sp
        tr = task['transport']
        state = {'off': 0}
        if tr.startswith('pty'):
            wfd = sp.hs_slave
        elif tr == 'fd-pipe':
            wfd = None
        # find the peer's writing fd
        if tr == 'fd-pipe':
            # Setup registered actions with fd=w; recover it from the Env
            wfd = [fd for fd in env.fds if fd != sp.child_fd][-1]
        if tr == 'popen':
            wfd = env.popen.peer_out
        if tr == 'socket':
            st.peer_sock.setblocking(False)
        else:
            os.set_blocking(wfd, False)

        def pump():
            # write as much as the kernel takes right now
            while state['off'] < len(data):
                try:
                    if tr == 'socket':
                        k = st.peer_sock.send(data[state['off']:state['off'] + 65536])
                    else:
                        k = os.write(wfd, data[state['off']:state['off'] + 65536])
                except (BlockingIOError, InterruptedError):
                    return
                state['off'] += k
            if state['off'] >= len(data) and not state.get('closed'):
                state['closed'] = True
                if tr == 'socket':
                    st.peer_sock.close()
                elif tr.startswith('pty'):
                    wait_delivery(env, sp)
                    env.procs.exit(sp.hs_proc, 0)
                elif tr == 'popen':
                    env.procs.exit(env.popen.proc, 0)
                else:
                    env.peer_close(wfd)
        # the pump runs at every scheduling point (default) or is delayed by one point (deviation)
        orig_sched = env.sched

        counter = [0]

        def sched(label):
            orig_sched(label)
            counter[0] += 1
            if counter[0] - 1 != skip_at:
                pump()
        env.sched = sched
        got = b''
        sp.timeout = T
        for _ in range(200000):
            try:
                sp.expect(EOF, timeout=T)
                got = sp.before
                obs['end'] = 'EOF'
                break
            except TIMEOUT:
                pump()
                continue
        else:
            viol = ('no-eof', 'never reached EOF')
        if viol is None and got != data:
            viol = ('lost' if len(got) < len(data) else 'extra',
                    'large output: %d of %d bytes returned, first difference at %d'
                    % (len(got), len(data), next((i for i in range(min(len(got), len(data))) if got[i] != data[i]), min(len(got), len(data)))))
        LAST_POINTS[0] = env.points
    except E.Hang as h:
        obs['end'] = 'hang'
        viol = ('hang', str(h))
    except Cut as c:
        obs['end'] = 'cut'
        viol = ('horizon', str(c))
    finally:
        try:
            if st is not None and st.tr == 'popen':
                E.finish_popen(env)
            if st is not None and st.tr.startswith('pty'):
                E.finalize_pty(st.sp)
        finally:
            env.finish()
    return obs, viol


def wait_delivery(env, sp):
    import time as _t
    # all bytes written to the slave must be visible on the master before the process "exits"
    t_end = _t.time() + 2
    last = -1
    while _t.time() < t_end:
        cur = E.fionread(sp.hs_master) if sp.hs_master in (sp.child_fd,) else 0
        if cur == last:
            return
        last = cur
        _t.sleep(0.0005)


def replay(spec):
    from mc.explore import unjson
    spec = unjson(spec)
    task = spec['task']
    out = {'violation': None}
    if 'large' in spec:
        obs, viol = run_config_large(Chooser(()), task, payload(spec['large'], 65), spec.get('skip_at'))
        key = '%s:large:%s' % (task['transport'], viol[0]) if viol else None
    else:
        x, y = payload(spec['a'], 65, task.get('enc')), payload(spec['b'], 97, task.get('enc'))
        obs, viol = run_config(Chooser(spec['choices']), task, x, y)
        key = '%s%s:%s:%s:%s' % (task['transport'], '+utf-8' if task.get('enc') else '', task['driver'], task['ending'], viol[0]) if viol else None
    out['observation'] = {k: v for k, v in obs.items()}
    if viol:
        out['violation'] = {'key': key, 'msg': viol[1]}
    return out
