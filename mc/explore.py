"""E1 -- the explorer: choice recording/replay, stateless deviation-bounded DFS.

A harness body takes a Chooser and calls ch.choose(n, label) at every
nondeterministic decision; choice 0 is the default (quiet, cooperative)
environment answer.  `dfs` enumerates *every* choice sequence exactly once
(optionally only those with at most `bound` non-default choices).  During the
replay of a prefix an arity mismatch is a hard NondeterminismError.
"""
import hashlib
import json


class NondeterminismError(Exception):
    pass


class Cut(Exception):
    """Raised by a harness to abandon an execution (e.g. horizon reached)."""


class Chooser(object):
    __slots__ = ('prefix', 'trace', 'labels')

    def __init__(self, prefix=()):
        self.prefix = list(prefix)
        self.trace = []      # list of (arity, choice)
        self.labels = []

    def choose(self, n, label=''):
        if n <= 0:
            raise NondeterminismError('choose(%d) at %s' % (n, label))
        i = len(self.trace)
        if i < len(self.prefix):
            c = self.prefix[i]
            if c >= n:
                raise NondeterminismError(
                    'replay divergence at point %d (%s): choice %d but arity %d'
                    % (i, label, c, n))
        else:
            c = 0
        self.trace.append((n, c))
        self.labels.append(label)
        return c

    def pick(self, options, label=''):
        return options[self.choose(len(options), label)]

    def choices(self):
        return [c for _, c in self.trace]

    def deviations(self):
        return sum(1 for _, c in self.trace if c)


def dfs(run, bound=None, prefix0=()):
    """Enumerate executions of run(chooser).  Yields (chooser, result).

    Every complete choice sequence reachable with <= bound deviations from the
    all-zero default is produced exactly once (bound None = all).
    prefix0: a fixed forced prefix (used to partition work)."""
    stack = [list(prefix0)]
    base = len(prefix0)
    while stack:
        prefix = stack.pop()
        ch = Chooser(prefix)
        res = run(ch)
        if len(ch.trace) < len(prefix):
            e = NondeterminismError('execution ended before its prefix (%d<%d)'
                                    % (len(ch.trace), len(prefix)))
            e.prefix = prefix
            raise e
        yield ch, res
        tr = ch.trace
        devs = 0
        cum = []
        for n, c in tr:
            cum.append(devs)
            if c:
                devs += 1
        for i in range(len(tr) - 1, max(len(prefix), base) - 1, -1):
            n, c = tr[i]
            if n <= 1:
                continue
            if bound is not None and cum[i] + 1 > bound:
                continue
            head = [x for _, x in tr[:i]]
            for alt in range(n - 1, 0, -1):
                stack.append(head + [alt])


def run_once(run, choices):
    ch = Chooser(choices)
    res = run(ch)
    return ch, res


def digest(obj):
    return hashlib.sha1(json.dumps(obj, sort_keys=True, default=repr)
                        .encode()).hexdigest()[:16]


def jsonable(x):
    """Best-effort conversion of observations to JSON-able form."""
    if isinstance(x, bytes):
        return {'b': x.decode('latin-1')}
    if isinstance(x, (str, int, float, bool)) or x is None:
        return x
    if isinstance(x, (list, tuple)):
        return [jsonable(i) for i in x]
    if isinstance(x, dict):
        return {str(k): jsonable(v) for k, v in x.items()}
    if isinstance(x, (set, frozenset)):
        return sorted(jsonable(i) for i in x)
    if isinstance(x, type):
        return x.__name__
    return repr(x)


def unjson(x):
    if isinstance(x, dict) and list(x.keys()) == ['b']:
        return x['b'].encode('latin-1')
    if isinstance(x, list):
        return [unjson(i) for i in x]
    if isinstance(x, dict):
        return {k: unjson(v) for k, v in x.items()}
    return x
