"""Shared driver for C09 (exit status truth) and C10 (lifecycle safety): runs a sequence of
lifecycle operations on a real pexpect object over the controlled environment and
evaluates invariants after every operation."""
import errno
import gc
import os
import signal

import pexpect
import ptyprocess
from pexpect import EOF, TIMEOUT

from mc import env as E
from mc import transports as TR
from mc.explore import Cut


def decode(status):
    """(exitstatus, signalstatus) from a wait status word, the way the C macros do."""
    if status is None:
        return None
    if status & 0x7f == 0:
        return ((status >> 8) & 0xff, None)
    return (None, status & 0x7f)


class Run(object):
    def __init__(self, ch, transport='pty-select', disposition='normal', latencies=(0.0,), fate=None, timeout=0.3):
        self.env = env = E.Env(ch)
        env.latency_choices = latencies
        kw = {}
        if transport.startswith('pty'):
            skw = dict(raw=True)
            if disposition == 'ignores':
                skw['ignore'] = (signal.SIGHUP, signal.SIGINT)
            if disposition == 'stopped':
                skw['stopped'] = True
            kw['spawn_kw'] = skw
        self.link = TR.Link(env, transport, timeout=timeout, **kw)
        self.sp = self.link.sp
        self.transport = transport
        self.proc = self.link.proc
        self.fd0 = self.sp.child_fd
        self.events = []          # (op, outcome)
        self.viol = None
        self.observed = False
        self.first_status = None
        self.decoy = None
        self.decoy_sig = None
        self.fd_open = True       # the real descriptor is still the transport
        self.closed_ok = False
        if disposition == 'exited' and self.proc is not None:
            env.procs.exit(self.proc, 5)
        if disposition == 'peer-closes' and self.proc is None:
            self.link.close()                 # the peer closes its end at some point of the sequence (EOF)
        if disposition == 'kill-esrch' and self.proc is not None:
            # fault answer: kill() on the just-died, still unreaped child says ESRCH (the library has an
            # "except OSError" branch for exactly such 'kernel timing issues' in terminate())
            env.procs.esrch_on_zombie = True
        if fate is not None and self.proc is not None:
            kind, val = fate[0], fate[1]
            if kind == 'exit':
                env.add('exit', (self.proc, val))
            else:
                env.add('sig', (self.proc, val) + ((True,) if len(fate) > 2 and fate[2] else ()))
        self.deleted = False

    # -- helpers ------------------------------------------------------------
    def fd_is_transport(self):
        """Is the original descriptor number still open and still the original object?"""
        return self.fd_open

    def note_fd(self):
        if self.fd_open and not self._fd_valid(self.fd0):
            self.fd_open = False
        elif self.fd_open and self.transport.startswith('pty') and self.sp.ptyproc.closed:
            self.fd_open = False
        elif self.fd_open and self.sp.child_fd == -1:
            # library says released: verify
            if self._fd_valid(self.fd0):
                self.fail('fd-leak', 'child_fd is -1 but descriptor %d is still open' % self.fd0)
            self.fd_open = False

    def _fd_valid(self, fd):
        try:
            os.fstat(fd)
            return True
        except OSError:
            return False

    def place_decoy(self):
        """Give the released descriptor number to an unrelated file, like any later open() would."""
        if self.decoy is not None or self.fd_open:
            return
        path = '/verif/.scratch/decoy_%d' % os.getpid()
        os.makedirs('/verif/.scratch', exist_ok=True)
        f = os.open(path, os.O_RDWR | os.O_CREAT | os.O_TRUNC, 0o600)
        os.write(f, b'DECOY')
        if f != self.fd0:
            os.dup2(f, self.fd0)
            os.close(f)
        self.decoy = self.fd0
        self.decoy_path = path

    def decoy_intact(self):
        if self.decoy is None:
            return True
        try:
            st = os.fstat(self.decoy)
            pos = os.lseek(self.decoy, 0, os.SEEK_CUR)
            data = open(self.decoy_path, 'rb').read()
        except OSError:
            return False
        return data == b'DECOY' and pos == 5 and st.st_size == 5

    def fail(self, kind, msg):
        if self.viol is None:
            self.viol = (kind, msg)

    # -- one operation --------------------------------------------------------
    def do(self, op):
        sp = self.sp
        env = self.env
        out = None
        nsig0 = len(self.proc.signals) if self.proc is not None else 0
        was_closed = self.closed_ok      # an earlier close() returned normally
        try:
            if op == 'isalive':
                out = ('ret', sp.isalive())
            elif op == 'wait':
                out = ('ret', sp.wait())
            elif op == 'wait_interrupted':
                # a signal handler that raises (Ctrl-C, an alarm) while wait() is blocked: nothing was learnt about the child
                def intr():
                    raise KeyboardInterrupt()
                act = E.Action('fn', intr)
                env.script.insert(0, act)
                try:
                    out = ('ret', sp.wait())
                except KeyboardInterrupt:
                    out = ('interrupted', None)
                finally:
                    if act in env.script:
                        env.script.remove(act)
            elif op == 'kill_term':
                out = ('ret', sp.kill(signal.SIGTERM))
            elif op == 'kill_kill':
                out = ('ret', sp.kill(signal.SIGKILL))
            elif op == 'kill_0':
                out = ('ret', sp.kill(0))
            elif op == 'terminate':
                out = ('ret', sp.terminate())
            elif op == 'terminate_force':
                out = ('ret', sp.terminate(force=True))
            elif op == 'closed_logfile':
                import io
                f = io.BytesIO() if sp.encoding is None else io.StringIO()
                f.close()
                sp.logfile = f                 # e.g. "with open(...) as log:" has ended before the spawn is closed
                out = ('ret', None)
            elif op == 'close':
                out = ('ret', sp.close())
            elif op == 'close_noforce':
                out = ('ret', sp.close(force=False))
            elif op == 'sendeof':
                out = ('ret', sp.sendeof())
            elif op == 'send_closing_log':
                # re-entrancy: the object is closed while send() is on its way (a logfile_send hook that ends the
                # session, a signal handler during delaybeforesend); the descriptor number is taken over at once
                run = self

                class ClosingLog(object):
                    done = False

                    def write(self_, data):
                        if not self_.done:
                            self_.done = True
                            try:
                                sp.close()
                            except Exception:
                                pass
                            run.note_fd()
                            if not run.fd_open:
                                run.place_decoy()

                    def flush(self_):
                        pass
                saved_log = sp.logfile_send
                sp.logfile_send = ClosingLog()
                try:
                    out = ('ret', sp.send(b'x'))
                finally:
                    sp.logfile_send = saved_log
            elif op == 'send':
                out = ('ret', sp.send(b'x'))
            elif op == 'sendcontrol':
                out = ('ret', sp.sendcontrol('c'))
            elif op == 'expect_eof':
                out = ('ret', sp.expect([EOF, TIMEOUT], timeout=0.2))
            elif op == 'read_until_eof':
                r = b''
                for _ in range(50):
                    try:
                        r += sp.read_nonblocking(100, 0.2)
                    except TIMEOUT:
                        break
                    except EOF:
                        out = ('eof', r)
                        break
                if out is None:
                    out = ('ret', r)
            elif op == 'rnb':
                try:
                    out = ('ret', sp.read_nonblocking(10, 0.1))
                except TIMEOUT:
                    out = ('timeout', None)
                except EOF:
                    out = ('eof', None)
            elif op == 'with_exit':
                try:
                    with sp:
                        raise KeyError('boom')
                except KeyError:
                    out = ('ret', None)
            elif op == 'del':
                self.deleted = True
                self.link.sp = None
                self.sp = None
                del sp
                gc.collect()
                out = ('ret', None)
                sp = None
            else:
                raise KeyError(op)
        except E.Hang:
            raise
        except Cut:
            raise
        except E.HarnessError:
            raise
        except BaseException as e:      # noqa: the class is judged
            out = ('exc', e)
        self.events.append((op, out[0], repr(out[1])[:80]))
        self.after(op, out, nsig0, was_closed)
        return out

    # -- invariants after every operation -------------------------------------
    def after(self, op, out, nsig0, was_closed):
        sp = self.sp
        p = self.proc
        env = self.env
        env.procs.settle()
        if out[0] == 'exc':
            e = out[1]
            if isinstance(e, ptyprocess.PtyProcessError):
                self.fail('foreign-exception', '%s raised %r (ptyprocess error not wrapped)' % (op, e))
        if self.deleted:
            # dropping the object: descriptor released, child not left as a zombie
            if self._fd_valid(self.fd0) and self.decoy is None and self.transport.startswith('pty'):
                self.fail('fd-leak', 'after del the descriptor %d is still open' % self.fd0)
            if p is not None and self.transport.startswith('pty') and p.state in ('zombie',):
                self.fail('zombie-leak', 'after del the child is an unreaped zombie')
            return
        self.note_fd()
        # liveness truthfulness
        if p is not None:
            if op == 'isalive' and out[0] == 'ret':
                if out[1] is True and p.state == 'reaped':
                    self.fail('alive-lie', 'isalive() says True but the child was reaped')
            if sp.terminated and p.alive() and self.transport.startswith('pty'):
                self.fail('terminated-lie', 'terminated is True after %s but the child is %s' % (op, p.state))
            if op == 'terminate_force' and out[0] == 'ret':
                if p.state != 'reaped':
                    self.fail('not-reaped', 'terminate(force=True) returned %r but the child is %s' % (out[1], p.state))
            if op in ('close', 'with_exit') and out[0] == 'ret' and self.transport.startswith('pty'):
                if p.state != 'reaped':
                    self.fail('not-reaped', '%s returned but the child is %s' % (op, p.state))
            if op in ('close', 'close_noforce', 'with_exit') and was_closed and len(p.signals) != nsig0:
                self.fail('close-not-idempotent', 'second %s sent signals %r' % (op, p.signals[nsig0:]))
        if op in ('close', 'with_exit') and out[0] == 'exc' and not was_closed:
            self.fail('close-failed', '%s raised %r: the child is %s and descriptor %d is %s'
                      % (op, out[1], p.state if p is not None else 'n/a', self.fd0,
                         'still open' if self._fd_valid(self.fd0) else 'released'))
        if op in ('close', 'close_noforce', 'with_exit'):
            if out[0] == 'ret':
                self.closed_ok = True
            if was_closed and out[0] == 'exc':
                self.fail('close-not-idempotent', 'second %s raised %r' % (op, out[1]))
            if out[0] == 'ret':
                if self._fd_valid(self.fd0) and self.decoy is None:
                    self.fail('fd-leak', 'after %s descriptor %d is still open' % (op, self.fd0))
                if sp.child_fd != -1:
                    self.fail('stale-handle', 'after %s child_fd is still %r' % (op, sp.child_fd))
                if not sp.closed:
                    self.fail('closed-flag', 'after %s closed is False' % op)
        # no stale handle: once the descriptor is gone the object must not keep its number
        if not self.fd_open and sp.child_fd == self.fd0:
            self.fail('stale-handle', 'descriptor %d was released by %s but child_fd still carries its number'
                      % (self.fd0, op))
        if not self.fd_open:
            self.place_decoy()
        if self.decoy is not None:
            if not self.decoy_intact():
                self.fail('touched-foreign-fd', '%s touched the file that now owns descriptor %d' % (op, self.fd0))
            if op in ('send', 'send_closing_log', 'sendcontrol', 'sendeof', 'rnb', 'expect_eof', 'read_until_eof') and out[0] not in ('exc',):
                if not (op in ('expect_eof', 'read_until_eof', 'rnb') and out[0] in ('eof',)) and \
                        not (op == 'expect_eof' and out[0] == 'ret' and out[1] == 0 and sp.flag_eof and False):
                    self.fail('io-after-close', '%s after the descriptor was released returned %r instead of failing'
                              % (op, out[1]))
        # exit status truth (C09)
        if p is not None and self.transport != 'popen':
            self.status_truth(op, out)

    def status_truth(self, op, out):
        sp, p = self.sp, self.proc
        observed_now = False
        if op == 'isalive' and out == ('ret', False):
            observed_now = True
        if op == 'wait' and out[0] == 'ret':
            observed_now = True
        if op in ('close', 'with_exit') and out[0] == 'ret':
            observed_now = True
        if op in ('terminate', 'terminate_force') and out == ('ret', True):
            observed_now = True
        if op in ('expect_eof', 'read_until_eof', 'rnb') and sp.flag_eof and (out[0] == 'eof' or (op == 'expect_eof' and out == ('ret', 0))):
            # a read that hit EOF observes the death when it refreshes the status (the pty fast path does,
            # the timed-wait path does not; "expect(EOF) then isalive" is the documented way) -- whenever
            # the object claims the child terminated, the values must be the truth
            observed_now = bool(sp.terminated)
        if sp.terminated and self.transport.startswith('pty'):
            observed_now = True
        if observed_now:
            self.observed = True
        if not self.observed:
            return
        truth = p.status
        if truth is None:
            self.fail('observed-but-alive', 'after %s the death counts as observed but the child is %s' % (op, p.state))
            return
        want = decode(truth)
        got = (sp.exitstatus, sp.signalstatus)
        if not sp.terminated:
            self.fail('status', 'after %s terminated is False although the death was observed' % op)
        elif got != want:
            self.fail('status', 'after %s exitstatus/signalstatus = %r, real fate %r (status word %r)' % (op, got, want, truth))
        elif sp.status != truth:
            self.fail('status', 'after %s status word %r, real %r' % (op, sp.status, truth))
        elif op == 'wait' and out[0] == 'ret' and out[1] != want[0]:
            self.fail('wait-return', 'wait() returned %r, exit code %r' % (out[1], want[0]))
        snap = (sp.exitstatus, sp.signalstatus, sp.status, sp.terminated)
        if self.first_status is None:
            self.first_status = snap
        elif snap != self.first_status:
            self.fail('status-changed', 'status attributes changed from %r to %r by %s' % (self.first_status, snap, op))

    def finish(self):
        try:
            if self.decoy is not None:
                try:
                    os.close(self.decoy)
                except OSError:
                    pass
                try:
                    os.unlink(self.decoy_path)
                except OSError:
                    pass
            if self.sp is not None and self.transport.startswith('pty'):
                if self.decoy is not None:
                    # the library object must not close the decoy's number later
                    self.sp.ptyproc.closed = True
                    self.sp.ptyproc.terminated = True
                else:
                    E.finalize_pty(self.sp)
            if self.sp is not None and self.transport.startswith('fd') and self.sp.child_fd not in (-1, self.decoy):
                try:
                    os.close(self.sp.child_fd)
                except OSError:
                    pass
                self.env.fds.discard(self.sp.child_fd)
        finally:
            if self.transport == 'popen':
                E.finish_popen(self.env)
            self.env.fds.discard(self.decoy)
            self.env.finish()
