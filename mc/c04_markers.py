"""C04 -- EOF/TIMEOUT outcomes.

Part A (ScriptSpawn seam, complete table): marker placement x entry point x
pending text x received text x ending x window x mode, each followed by two
further calls (EOF stickiness / TIMEOUT consumes nothing).
Part B (controlled environment, every transport class): see c04b in this file;
registered as extra tasks when mc.env is available.
"""
import itertools
import re

from pexpect import EOF, TIMEOUT

from mc.runner import Acc
from mc.script_spawn import ScriptSpawn, install_clock
from mc.vclock import CLOCK

PROPERTY = 'C04'
RULE = ('complete table: case = (entry point, marker placement, pending text, chunks received, ending, '
        'window, mode) [+ transport and peer ending for part B]; non-trivial = the call ended in EOF/TIMEOUT '
        'or a pending occurrence had to beat the marker')
ASSUMPTIONS = ['part A replaces the transport by a scripted read_nonblocking; part B uses real kernel objects with a virtual clock']
REQUIRED_FLAGS = {'eof_index': 1, 'eof_raised': 1, 'timeout_index': 1, 'timeout_raised': 1,
                  'pending_beats_marker': 1, 'after_eof_again': 1, 'occurrence_outside_window': 1,
                  'dead_child_silent_tty': 1, 'reads_smaller_than_a_character': 1}

M = {'E': EOF, 'T': TIMEOUT}
PLACEMENTS = [(), ('E',), ('T',), ('E', 'p'), ('p', 'E'), ('T', 'p'), ('p', 'T'), ('p', 'E', 'q'),
              ('p', 'T', 'q'), ('E', 'T', 'p'), ('T', 'E', 'p'), ('p', 'E', 'T'), ('p', 'T', 'E'),
              ('p',), ('p', 'q')]
ENTRIES = ['expect', 'expect_exact', 'expect_list', 'expect_loop', 'read2', 'readall', 'readline']
PENDING = ['', 'xx', 'xabx', 'abxx', 'abxxxxx']   # 'abxx' with W=2: occurrence only outside the window
RECEIVED = [(), ('y',), ('a', 'b')]            # ('a','b') completes an occurrence across two reads
ENDINGS = ['EOF', 'TIMEOUT', 'T0', 'TNEG', 'TNONE_EOF']
WINDOWS = [None, 2]


def bounds(tier):
    return dict(placements=len(PLACEMENTS), entries=ENTRIES, pending=PENDING, received=RECEIVED,
                endings=ENDINGS, windows=WINDOWS, modes=['bytes', 'utf-8'])


def tasks(tier):
    t = [dict(part='A', entry=e, mode=m, tier=tier) for e in ENTRIES for m in ('bytes', 'utf-8')]
    try:
        from mc import c04b
        t += c04b.tasks(tier)
    except ImportError:
        pass
    return t


def run_case(task, placement, pending, received, ending, W, setup='setter'):
    """Returns (obs dict, violation or None, flags list)."""
    CLOCK.reset()
    enc = None if task['mode'] == 'bytes' else task['mode']
    S = (lambda s: s.encode('ascii')) if enc is None else (lambda s: s)
    entry = task['entry']
    flags = []
    chunks = [c.encode('ascii') for c in received]
    pos = [0]
    reads = [0]
    state = {'eof': False}

    def answer(size, timeout):
        reads[0] += 1
        if state['eof']:
            return EOF
        if pos[0] < len(chunks):
            c = chunks[pos[0]]
            pos[0] += 1
            return c
        if ending in ('EOF', 'TNONE_EOF'):
            state['eof'] = True
            return EOF
        return TIMEOUT

    sp = ScriptSpawn(answer, timeout=5, encoding=enc, searchwindowsize=None)
    fresh_before_none = sp.before is None
    if pending and setup == 'setter':
        sp.buffer = S(pending)
    elif pending:
        # the pending text is what an earlier exact-string call left behind when it timed out:
        # its search buffer was trimmed to the look-back length, the untrimmed copy holds everything
        prior = [pending.encode('ascii')]

        def prior_answer(size, timeout):
            return prior.pop(0) if prior else TIMEOUT
        sp.answer = prior_answer
        sp.expect_exact([S('~'), TIMEOUT], timeout=5)
        sp.answer = answer
        reads[0] = 0
    T = {'EOF': 5, 'TIMEOUT': 5, 'T0': 0, 'TNEG': -0.5, 'TNONE_EOF': None}[ending]
    pnames = {'p': 'ab', 'q': 'zz'}
    names = [x for x in placement]
    exc = None
    ret = None

    def build(kind):
        out = []
        for n in names:
            if n in M:
                out.append(M[n])
            elif kind == 'compiled':
                out.append(re.compile(S(pnames[n]), re.DOTALL))
            else:
                out.append(S(pnames[n]))
        return out

    listed = list(names)
    try:
        if entry == 'expect':
            ret = sp.expect(build('str'), timeout=T, searchwindowsize=W if W else -1)
        elif entry == 'expect_exact':
            ret = sp.expect_exact(build('str'), timeout=T, searchwindowsize=W if W else -1)
        elif entry == 'expect_list':
            ret = sp.expect_list(build('compiled'), timeout=T, searchwindowsize=W if W else -1)
        elif entry == 'expect_loop':
            from pexpect.expect import searcher_re
            ret = sp.expect_loop(searcher_re(build('compiled')), timeout=T, searchwindowsize=W if W else -1)
        else:
            sp.timeout = T
            sp.searchwindowsize = W
            if entry == 'read2':
                listed = ['r2', 'E']
                ret = sp.read(2)
            elif entry == 'readall':
                listed = ['E']
                ret = sp.read(-1)
            else:
                listed = ['crlf', 'E']
                ret = sp.readline()
    except BaseException as e:   # noqa -- the class is what is judged
        exc = e
    # ---- what should have happened -----------------------------------
    # effective timeline of searchable text
    texts = [pending]
    nread_possible = len(received)
    if ending == 'TNEG':
        nread_possible = 0
    elif ending == 'T0':
        nread_possible = min(1, len(received))
    for c in received[:nread_possible]:
        texts.append(texts[-1] + c)

    def occurs(txt):
        Sx = txt[-W:] if W else txt
        if entry in ('expect', 'expect_exact', 'expect_list', 'expect_loop'):
            return any(pnames[n] in Sx for n in names if n not in M)
        if entry == 'read2':
            return len(Sx) >= 2
        if entry == 'readline':
            return '\r\n' in Sx
        return False

    want = None
    for k, txt in enumerate(texts):
        if occurs(txt):
            want = ('match', txt)
            break
    if want is None:
        final = texts[-1]
        if ending in ('EOF', 'TNONE_EOF') and nread_possible == len(received):
            want = ('EOF', final)
        else:
            want = ('TIMEOUT', final)
        if ending == 'T0' and len(received) == 0:
            want = ('TIMEOUT', final)
    obs = dict(ret=ret, exc=type(exc).__name__ if exc else None, before=sp.before,
               after=sp.after, match_index=sp.match_index, buffer=sp.buffer, want=want[0])
    full = S(want[1])
    if want[0] == 'match':
        if exc is not None:
            return obs, ('pending-occurrence-lost', 'occurrence in %r should win (ending %s) but %r was raised'
                         % (want[1], ending, exc)), flags
        if sp.after is EOF or sp.after is TIMEOUT:
            return obs, ('pending-occurrence-lost', 'occurrence in %r should win (ending %s) but outcome was %r'
                         % (want[1], ending, sp.after)), flags
        if texts[0] == want[1] and ending in ('T0', 'TNEG', 'EOF') and entry.startswith('expect'):
            flags.append('pending_beats_marker')
        return obs, None, flags
    if W and 'ab' in want[1]:
        flags.append('occurrence_outside_window')
    mk = EOF if want[0] == 'EOF' else TIMEOUT
    code = 'E' if want[0] == 'EOF' else 'T'
    if entry in ('read2', 'readall', 'readline') and want[0] == 'EOF':
        # EOF is the delimiter: the call returns before
        if exc is not None:
            return obs, ('wrong-exception', '%s at EOF raised %r' % (entry, exc)), flags
        if ret != full or sp.before != full or sp.after is not EOF:
            return obs, ('eof-fields', '%s at EOF: ret=%r before=%r after=%r, pending was %r'
                         % (entry, ret, sp.before, sp.after, full)), flags
        flags.append('eof_index')
    elif code in listed:
        idx = listed.index(code)
        if exc is not None:
            return obs, ('wrong-exception', '%s listed at %d but %r raised' % (want[0], idx, exc)), flags
        if ret != idx or sp.match_index != idx or sp.after is not mk or sp.match is not mk or sp.before != full:
            return obs, ('marker-fields', '%s listed at %d: ret=%r match_index=%r after=%r match=%r before=%r (pending %r)'
                         % (want[0], idx, ret, sp.match_index, sp.after, sp.match, sp.before, full)), flags
        flags.append('eof_index' if code == 'E' else 'timeout_index')
    else:
        if exc is None:
            return obs, ('no-exception', '%s not listed but call returned %r (after=%r)' % (want[0], ret, sp.after)), flags
        if type(exc) is not mk:
            return obs, ('wrong-exception', 'expected exactly %s, got %r' % (want[0], exc)), flags
        if exc.__cause__ is not None:
            return obs, ('cause', '__cause__ is %r' % (exc.__cause__,)), flags
        if sp.before != full or sp.after is not mk or sp.match is not None or sp.match_index is not None:
            return obs, ('marker-fields', '%s raised: before=%r after=%r match=%r match_index=%r (pending %r)'
                         % (want[0], sp.before, sp.after, sp.match, sp.match_index, full)), flags
        if 'searcher' not in str(exc) or not str(exc):
            return obs, ('message', 'diagnostic message missing: %r' % str(exc)[:80]), flags
        flags.append('eof_raised' if code == 'E' else 'timeout_raised')
    # ---- follow-up calls ------------------------------------------------
    r0 = reads[0]
    if want[0] == 'EOF':
        if sp.buffer != S(''):
            return obs, ('eof-not-cleared', 'buffer after EOF = %r' % (sp.buffer,)), flags
        for nxt in ('expect', 'exact', 'readline', 'read'):
            sp.timeout = None         # a further call must not block: only EOF answers are possible
            try:
                if nxt == 'expect':
                    sp.expect(S('zz'))
                    r = 'ret'
                elif nxt == 'exact':
                    r = sp.expect_exact([S('zz'), EOF])
                    r = 'EOFidx' if (r == 1 and sp.before == S('')) else 'bad%r' % r
                elif nxt == 'readline':
                    r = 'EOFidx' if sp.readline() == S('') else 'bad'
                else:
                    r = 'EOFidx' if sp.read(3) == S('') else 'bad'
            except EOF as e:
                r = 'EOF' if (type(e) is EOF and sp.before == S('')) else 'bad-eof'
            except BaseException as e:
                r = 'exc %r' % e
            if r not in ('EOF', 'EOFidx'):
                return obs, ('eof-not-sticky', 'call %s after EOF gave %s' % (nxt, r)), flags
        flags.append('after_eof_again')
    else:
        # TIMEOUT consumed nothing: the same text is still pending
        sp.timeout = 5
        sp.searchwindowsize = None
        state['eof'] = True
        try:
            sp.expect(EOF)
        except BaseException as e:
            return obs, ('after-timeout', 'expect(EOF) after TIMEOUT raised %r' % e), flags
        if sp.before != full:
            return obs, ('timeout-consumed', 'after TIMEOUT the pending text is %r, expected %r' % (sp.before, full)), flags
    return obs, None, flags


PENDING_T = PENDING + ['ab', 'xxab', 'a', 'abxab', 'xaxbx', 'abxxxxxxxxxx']
RECEIVED_T = RECEIVED + [('ab',), ('x', 'a', 'b'), ('xa', 'bx'), ('a',), ('zz',), ('a', 'b', 'y')]
WINDOWS_T = [None, 1, 2, 3, 5]
TIER = ['quick']


def cases():
    th = TIER[0] != 'quick'
    for placement in PLACEMENTS:
        for pending in (PENDING_T if th else PENDING):
            for received in (RECEIVED_T if th else RECEIVED):
                for ending in ENDINGS:
                    for W in (WINDOWS_T if th else WINDOWS):
                        yield placement, pending, received, ending, W


def run_task(task):
    if task.get('part') == 'B':
        from mc import c04b
        return c04b.run_task(task)
    install_clock()
    TIER[0] = task.get('tier', 'quick')
    acc = Acc()
    seen = set()
    for placement, pending, received, ending, W in cases():
        if not task['entry'].startswith('expect'):
            if placement != ():
                continue
            if task['entry'] == 'readline':
                received = tuple('\r\n' if c == 'b' else c for c in received)
        elif placement == ():
            continue
        for setup in ('setter', 'prior-timeout'):
            if setup == 'prior-timeout' and not pending:
                continue
            obs, viol, flags = run_case(task, placement, pending, received, ending, W, setup)
            acc.execs += 1
            acc.transitions += 1
            acc.outcomes['%s/%s' % (obs['want'], obs['exc'] or 'ret')] += 1
            for f in flags:
                acc.flags[f] += 1
            if obs['want'] != 'match' or 'pending_beats_marker' in flags:
                acc.nontrivial += 1
            seen.add((obs['want'], obs['exc'], repr(obs['after'])))
            if viol:
                key = 'A:%s:%s:%s' % (task['entry'], ending, viol[0])
                acc.violation(key, viol[1], dict(task=task, placement=list(placement), pending=pending,
                                                 received=list(received), ending=ending, W=W, setup=setup))
    acc.states = len(seen)
    acc.sample(dict(task=task, placement=['p', 'E', 'q'], pending='abxx', received=['y'], ending='EOF', W=2, setup='prior-timeout'))
    return acc


def replay(spec):
    from mc.explore import unjson
    spec = unjson(spec)
    if spec['task'].get('part') == 'B':
        from mc import c04b
        return c04b.replay(spec)
    install_clock()
    obs, viol, flags = run_case(spec['task'], tuple(spec['placement']), spec['pending'],
                                tuple(spec['received']), spec['ending'], spec['W'], spec.get('setup', 'setter'))
    out = {'observation': {k: repr(v) for k, v in obs.items()}, 'violation': None}
    if viol:
        out['violation'] = {'key': 'A:%s:%s:%s' % (spec['task']['entry'], spec['ending'], viol[0]), 'msg': viol[1]}
    return out
