"""C19 -- screen operations vs a straightforward reference grid.

Explicit-state BFS over (real pexpect.screen.screen, reference grid): every
public operation with every coordinate/count argument from {below range, 1,
interior, max, above range}, swapped corners, str and bytes characters, scroll
regions of every shape.  To the fix-point on tiny screens, depth-bounded (with
state deduplication) on larger ones.  After every operation the whole grid,
cursor, saved cursor and region are compared (frame condition) and every read
accessor is compared with the reference rendering.
"""
import collections
import os

from mc.runner import Acc

PROPERTY = 'C19'
RULE = ('explicit-state BFS; case = one transition (screen state, operation with arguments); state = grid, cursor, '
        'saved cursor, scroll region; non-trivial = the operation changed the state or had an out-of-range / swapped '
        'argument; distinct by (state, op)')
ASSUMPTIONS = [
    'reference grid written from the docstrings; where they are silent today\'s behaviour is pinned: '
    'scroll_up/scroll_down leave the vacated row unchanged; lf scrolls only at the bottom row of the screen; '
    'cursor_up_reverse at the top row calls scroll_up; a region with start >= end scrolls nothing',
    'characters {a,b} as str and bytes (latin-1 screen)']
STATES_MEANING = 'distinct (screen, reference) states (grid, cursor, saved cursor, scroll region), deduplicated, summed over screen sizes'
REQUIRED_FLAGS = {'out_of_range_arg': 1, 'swapped_corners': 1, 'bytes_char': 1, 'scroll_in_region': 1,
                  'degenerate_region': 1, 'changed_state': 1}

SP = u' '


def clamp(n, lo, hi):
    return lo if n < lo else hi if n > hi else n


class Ref(object):
    """The boring reference: a list of lists and four pairs of integers."""

    def __init__(self, rows, cols, state=None):
        self.rows, self.cols = rows, cols
        if state is None:
            self.g = [[SP] * cols for _ in range(rows)]
            self.r = self.c = self.sr = self.sc = 1
            self.top, self.bot = 1, rows
        else:
            g, self.r, self.c, self.sr, self.sc, self.top, self.bot = state
            self.g = [list(row) for row in g]

    def state(self):
        return (tuple(''.join(row) for row in self.g), self.r, self.c, self.sr, self.sc, self.top, self.bot)

    # -- helpers
    def _ch(self, ch):
        if isinstance(ch, bytes):
            ch = ch.decode(CFG['enc'], CFG['errors'])
        return ch[0]

    def _home(self, r, c):
        self.r = clamp(r, 1, self.rows)
        self.c = clamp(c, 1, self.cols)

    def _fill(self, rs, cs, re, ce, ch):
        rs, re = clamp(rs, 1, self.rows), clamp(re, 1, self.rows)
        cs, ce = clamp(cs, 1, self.cols), clamp(ce, 1, self.cols)
        if rs > re:
            rs, re = re, rs
        if cs > ce:
            cs, ce = ce, cs
        for r in range(rs, re + 1):
            for c in range(cs, ce + 1):
                self.g[r - 1][c - 1] = ch

    def _scroll_up(self):
        # rows top..bot-1 take the content of the row below; nothing else moves
        top, bot = self.top, self.bot
        if top < 1 or bot > self.rows or top >= bot:
            return
        for r in range(top, bot):
            self.g[r - 1] = list(self.g[r])

    def _scroll_down(self):
        top, bot = self.top, self.bot
        if top < 1 or bot > self.rows or top >= bot:
            return
        for r in range(bot, top, -1):
            self.g[r - 1] = list(self.g[r - 2])

    # -- operations
    def apply(self, op):
        n = op[0]
        a = op[1:]
        if n == 'put_abs':
            self.g[clamp(a[0], 1, self.rows) - 1][clamp(a[1], 1, self.cols) - 1] = self._ch(a[2])
        elif n == 'put':
            self.g[self.r - 1][self.c - 1] = self._ch(a[0])
        elif n in ('insert_abs', 'insert'):
            if n == 'insert':
                r, c, ch = self.r, self.c, a[0]
            else:
                r, c, ch = a
            r, c = clamp(r, 1, self.rows), clamp(c, 1, self.cols)
            row = self.g[r - 1]
            row.insert(c - 1, self._ch(ch))
            row.pop()
        elif n == 'fill':
            self._fill(1, 1, self.rows, self.cols, self._ch(a[0]) if a else SP)
        elif n == 'fill_region':
            self._fill(a[0], a[1], a[2], a[3], self._ch(a[4]) if len(a) > 4 else SP)
        elif n == 'cr':
            self.c = 1
        elif n in ('lf', 'crlf', 'newline'):
            if n != 'lf':
                self.c = 1
            if self.r < self.rows:
                self.r += 1
            else:
                self._scroll_up()
                self._fill(self.r, 1, self.r, self.cols, SP)
        elif n in ('cursor_home', 'cursor_force_position'):
            self._home(*(a if a else (1, 1)))
        elif n == 'cursor_back':
            self._home(self.r, self.c - (a[0] if a else 1))
        elif n == 'cursor_forward':
            self._home(self.r, self.c + (a[0] if a else 1))
        elif n == 'cursor_up':
            self._home(self.r - (a[0] if a else 1), self.c)
        elif n == 'cursor_down':
            self._home(self.r + (a[0] if a else 1), self.c)
        elif n == 'cursor_up_reverse':
            if self.r > 1:
                self.r -= 1
            else:
                self._scroll_up()
        elif n in ('cursor_save', 'cursor_save_attrs'):
            self.sr, self.sc = self.r, self.c
        elif n in ('cursor_unsave', 'cursor_restore_attrs'):
            self._home(self.sr, self.sc)
        elif n == 'scroll_screen':
            self.top, self.bot = 1, self.rows
        elif n == 'scroll_screen_rows':
            # "keeps the scroll region within the screen region"
            self.top = clamp(a[0], 1, self.rows)
            self.bot = clamp(a[1], 1, self.rows)
        elif n == 'scroll_up':
            self._scroll_up()
        elif n == 'scroll_down':
            self._scroll_down()
        elif n == 'erase_end_of_line':
            self._fill(self.r, self.c, self.r, self.cols, SP)
        elif n == 'erase_start_of_line':
            self._fill(self.r, 1, self.r, self.c, SP)
        elif n == 'erase_line':
            self._fill(self.r, 1, self.r, self.cols, SP)
        elif n == 'erase_down':
            # "from the current [cursor position on the current] line down to the bottom"
            self._fill(self.r, self.c, self.r, self.cols, SP)
            if self.r < self.rows:
                self._fill(self.r + 1, 1, self.rows, self.cols, SP)
        elif n == 'erase_up':
            self._fill(self.r, 1, self.r, self.c, SP)
            if self.r > 1:
                self._fill(1, 1, self.r - 1, self.cols, SP)
        elif n == 'erase_screen':
            self._fill(1, 1, self.rows, self.cols, SP)
        elif n in ('set_tab', 'clear_tab', 'clear_all_tabs'):
            pass
        else:
            raise KeyError(n)

    # -- renderings
    def get_abs(self, r, c):
        return self.g[clamp(r, 1, self.rows) - 1][clamp(c, 1, self.cols) - 1]

    def get_region(self, rs, cs, re, ce):
        rs, re = clamp(rs, 1, self.rows), clamp(re, 1, self.rows)
        cs, ce = clamp(cs, 1, self.cols), clamp(ce, 1, self.cols)
        if rs > re:
            rs, re = re, rs
        if cs > ce:
            cs, ce = ce, cs
        return [''.join(self.g[r - 1][cs - 1:ce]) for r in range(rs, re + 1)]

    def dump(self):
        return ''.join(''.join(r) for r in self.g)

    def text(self):
        return '\n'.join(''.join(r) for r in self.g)

    def pretty(self):
        bar = '+' + '-' * self.cols + '+\n'
        return bar + '\n'.join('|' + ''.join(r) + '|' for r in self.g) + '\n' + bar


def impl_state(s):
    try:
        g = tuple(''.join(row) for row in s.w)
    except TypeError:
        g = repr(s.w)
    return (g, s.cur_r, s.cur_c, s.cur_saved_r, s.cur_saved_c, s.scroll_row_start, s.scroll_row_end)


def row_sharing(s):
    """Which rows of the implementation's grid are one and the same list object?  Part of the state
    (a restore into independent rows would silently repair such a bug): for every row the index of
    the first row that is the same object."""
    try:
        ids = [id(r) for r in s.w]
    except TypeError:
        return ()
    first = {}
    out = []
    for i, x in enumerate(ids):
        out.append(first.setdefault(x, i))
    return tuple(out) if any(o != i for i, o in enumerate(out)) else ()


CFG = {'enc': 'latin-1', 'errors': 'replace'}        # screen encoding of the running task (one task per worker at a time)


def new_screen(rows, cols):
    from pexpect import screen
    return screen.screen(rows, cols, encoding=CFG['enc'], encoding_errors=CFG['errors'])


def undecodable(op):
    """Does the operation carry a bytes character that the task's (strict) encoding cannot decode?"""
    if CFG['errors'] != 'strict':
        return False
    for x in op[1:]:
        if isinstance(x, bytes):
            try:
                x.decode(CFG['enc'])
            except UnicodeDecodeError:
                return True
    return False


def make_impl(rows, cols, state, sharing=()):
    s = new_screen(rows, cols)
    g, s.cur_r, s.cur_c, s.cur_saved_r, s.cur_saved_c, s.scroll_row_start, s.scroll_row_end = state
    s.w = [list(row) for row in g]
    for i, j in enumerate(sharing):
        if j != i:
            s.w[i] = s.w[j]
    return s


def shape_ok(s, rows, cols):
    return (isinstance(s.w, list) and len(s.w) == rows and
            all(isinstance(r, list) and len(r) == cols and all(isinstance(x, str) and len(x) == 1 for x in r)
                for r in s.w))


def ops_for(rows, cols, chars):
    dr = sorted(set([0, 1, (rows + 1) // 2, rows, rows + 1]))
    dc = sorted(set([0, 1, (cols + 1) // 2, cols, cols + 1]))
    counts = sorted(set([0, 1, 2, max(rows, cols) + 1]))
    ops = []
    for ch in chars:
        ops.append(('put', ch))
        ops.append(('insert', ch))
        for r in dr:
            for c in dc:
                ops.append(('put_abs', r, c, ch))
    for r in dr:
        for c in dc:
            ops.append(('insert_abs', r, c, chars[0]))
            ops.append(('cursor_home', r, c))
    for ch in chars[1:]:
        for (r, c) in ((1, 1), (rows, cols), (rows, 1)):
            ops.append(('insert_abs', r, c, ch))
    for ch in chars[:-1]:
        ops.append(('fill_region', 1, 1, rows, cols, ch))
        ops.append(('fill', ch))
    ops.append(('cursor_force_position', rows, 1))
    ops.append(('cursor_home',))
    ops.append(('fill', chars[0]))
    ops.append(('fill',))
    colpairs = [(1, cols), (cols, 1), (0, cols + 1), (dc[len(dc) // 2], dc[len(dc) // 2])]
    for rs in dr:
        for re in dr:
            for cs, ce in colpairs:
                ops.append(('fill_region', rs, cs, re, ce, chars[-1]))
    ops.append(('fill_region', 1, 1, rows, cols))
    for n in ('cr', 'lf', 'crlf', 'newline', 'cursor_up_reverse', 'cursor_save', 'cursor_unsave',
              'cursor_save_attrs', 'cursor_restore_attrs', 'scroll_screen', 'scroll_up', 'scroll_down',
              'erase_end_of_line', 'erase_start_of_line', 'erase_line', 'erase_down', 'erase_up',
              'erase_screen', 'set_tab', 'clear_tab', 'clear_all_tabs'):
        ops.append((n,))
    for n in ('cursor_back', 'cursor_forward', 'cursor_up', 'cursor_down'):
        ops.append((n,))
        for k in counts:
            ops.append((n, k))
    for rs in dr:
        for re in dr:
            ops.append(('scroll_screen_rows', rs, re))
    return ops


def accessors(rows, cols):
    dr = sorted(set([0, 1, rows, rows + 1]))
    dc = sorted(set([0, 1, cols, cols + 1]))
    acc = [('dump',), ('str',), ('pretty',), ('get',)]
    for r in dr:
        for c in dc:
            acc.append(('get_abs', r, c))
    for rs in dr:
        for re in dr:
            acc.append(('get_region', rs, 1, re, cols))
            acc.append(('get_region', rs, cols + 1, re, 0))
    return acc


TEXT_ACCESSORS = [('dump',), ('str',), ('pretty',), ('get',)]


def read_all(s):
    str(s)
    s.pretty()
    s.dump()
    s.get()
    s.get_region(1, 1, s.rows, s.cols)


def check_accessors(s, ref, accs):
    for a in accs:
        n = a[0]
        try:
            if n == 'dump':
                got, want = s.dump(), ref.dump()
            elif n == 'str':
                got, want = str(s), ref.text()
            elif n == 'pretty':
                got, want = s.pretty(), ref.pretty()
            elif n == 'get':
                got, want = s.get(), ref.get_abs(ref.r, ref.c)
            elif n == 'get_abs':
                got, want = s.get_abs(a[1], a[2]), ref.get_abs(a[1], a[2])
            else:
                got, want = s.get_region(*a[1:]), ref.get_region(*a[1:])
        except Exception as e:
            return a, 'raised %r' % e
        if got != want:
            return a, 'returned %r, reference grid says %r' % (got, want)
    return None


def bounds(tier):
    return {'tasks': tasks(tier)}


def tasks(tier):
    q = tier == 'quick'
    t = [dict(rows=1, cols=1, chars=['a', b'b'], depth=None),
         dict(rows=1, cols=2, chars=['a'], depth=None),
         dict(rows=2, cols=1, chars=['a'], depth=None),
         dict(rows=2, cols=2, chars=['a'], depth=None),
         dict(rows=2, cols=3, chars=['a', b'b'], depth=3 if q else 4),
         dict(rows=3, cols=2, chars=['a', b'b'], depth=3 if q else 4),
         dict(rows=3, cols=4, chars=['a', b'b'], depth=2 if q else 4),
         # a multi-byte encoding: bytes characters longer than one byte; with strict errors an undecodable one
         dict(rows=2, cols=3, chars=['a', b'\xe2\x95\x94'], depth=2 if q else 3, enc='utf-8'),
         dict(rows=2, cols=3, chars=['a', b'\xff', b'\xc3\xa9'], depth=2 if q else 3, enc='utf-8', errors='strict')]
    if not q:
        t += [dict(rows=4, cols=5, chars=['a', b'b'], depth=3),
              dict(rows=3, cols=3, chars=['a', 'b'], depth=4),
              dict(rows=2, cols=3, chars=['a'], depth=None),
              dict(rows=3, cols=2, chars=['a'], depth=None),
              dict(rows=3, cols=1, chars=['a'], depth=None),
              dict(rows=1, cols=3, chars=['a', 'b'], depth=None),
              dict(rows=4, cols=1, chars=['a'], depth=None),
              dict(rows=2, cols=2, chars=['a', b'b'], depth=None)]
    return t


def step(rows, cols, st, op, sharing=()):
    """One transition on the real object and on the reference.  Returns
    (new_state or None, violation or None, changed, row sharing after the step)."""
    s = make_impl(rows, cols, st, sharing)
    ref = Ref(rows, cols, st)
    if undecodable(op):
        # a character the strict encoding rejects: the operation fails, and a failed operation changes nothing
        try:
            getattr(s, op[0])(*op[1:])
            return None, ('not-rejected', 'operation %r with an undecodable character did not raise' % (op,)), False, ()
        except UnicodeDecodeError:
            pass
        except Exception as e:
            return None, ('raised', 'operation %r raised %r' % (op, e)), False, ()
        got = impl_state(s) if shape_ok(s, rows, cols) else ('shape', repr(s.w))
        if got != st:
            return None, ('failed-op-changed-screen', 'operation %r was rejected (undecodable character) but changed the screen: %r -> %r'
                          % (op, st, got)), True, ()
        return st, None, False, row_sharing(s)
    try:
        read_all(s)      # a read earlier in the history must not change what a later read reports
        getattr(s, op[0])(*op[1:])
    except Exception as e:
        return None, ('raised', 'operation %r raised %r' % (op, e)), False, ()
    ref.apply(op)
    if not shape_ok(s, rows, cols):
        return None, ('shape', 'after %r the grid is no longer %dx%d single characters: %r' % (op, rows, cols, s.w)), True, ()
    got, want = impl_state(s), ref.state()
    if got != want:
        what = 'grid' if got[0] != want[0] else 'cursor' if got[1:3] != want[1:3] else \
            'saved-cursor' if got[3:5] != want[3:5] else 'region'
        return None, (what, 'after %r on %r: implementation %r, reference %r' % (op, st, got, want)), True, ()
    r = check_accessors(s, ref, TEXT_ACCESSORS)
    if r:
        return None, ('stale-%s' % r[0][0], 'read everything, then %r on %r: %r %s' % (op, st, r[0], r[1])), True, ()
    return got, None, got != st, row_sharing(s)


def opkey(op):
    return '%s' % op[0]


def run_task(task):
    os.makedirs('/verif/.scratch', exist_ok=True)
    os.chdir('/verif/.scratch')
    acc = Acc()
    rows, cols = task['rows'], task['cols']
    CFG.update(enc=task.get('enc', 'latin-1'), errors=task.get('errors', 'replace'))
    ops = ops_for(rows, cols, task['chars'])
    accs = accessors(rows, cols)
    init = (Ref(rows, cols).state(), ())
    parent = {init: None}
    frontier = [init]
    depth = 0
    flags = collections.Counter()
    bad_acc = set()
    cap = 300000 if task.get('tier') == 'quick' else 3000000
    while frontier and (task['depth'] is None or depth < task['depth']):
        nxt = []
        for node in frontier:
            st, sharing = node
            for op in ops:
                ns, viol, changed, nsh = step(rows, cols, st, op, sharing)
                if nsh:
                    flags['rows_shared'] += 1
                acc.execs += 1
                acc.transitions += 1
                nt = changed
                for x in op[1:]:
                    if isinstance(x, int) and (x < 1 or x > max(rows, cols)):
                        flags['out_of_range_arg'] += 1
                        nt = True
                        break
                if op[0] == 'fill_region' and (op[1] > op[3] or op[2] > op[4]):
                    flags['swapped_corners'] += 1
                if any(isinstance(x, bytes) for x in op[1:]):
                    flags['bytes_char'] += 1
                if op[0] in ('scroll_up', 'scroll_down', 'lf') and (st[5], st[6]) != (1, rows):
                    flags['scroll_in_region'] += 1
                    if st[5] >= st[6] or st[6] < 1 or st[5] > rows:
                        flags['degenerate_region'] += 1
                if changed:
                    flags['changed_state'] += 1
                if nt:
                    acc.nontrivial += 1
                acc.outcomes[opkey(op) + (':viol' if viol else ':ok')] += 1
                if viol:
                    acc.violation('%s:%s' % (op[0], viol[0]), viol[1],
                                  dict(task=task, history=path_to(parent, node) + [op]))
                    continue
                nn = (ns, nsh)
                if nn not in parent:
                    if len(parent) >= cap:
                        if not acc.caps:
                            acc.caps.append('state cap %d hit on %dx%d' % (cap, rows, cols))
                        continue
                    parent[nn] = (node, op)
                    nxt.append(nn)
        # accessors in every new state
        for nn in nxt:
            ns = nn[0]
            s = make_impl(rows, cols, ns, nn[1])
            r = check_accessors(s, Ref(rows, cols, ns), accs)
            acc.execs += 1
            if r is not None and r[0][0] not in bad_acc:
                acc.violation('accessor:%s' % r[0][0], '%r %s in state %r' % (r[0], r[1], ns),
                              dict(task=task, history=path_to(parent, nn), accessor=list(r[0])))
        frontier = nxt
        depth += 1
    acc.states = len(parent)
    acc.flags.update(flags)
    acc.extra['max_depth_%dx%d' % (rows, cols)] = depth
    acc.extra['fixpoint_%dx%d' % (rows, cols)] = int(not frontier)
    keys = list(parent)
    acc.sample(dict(screen='%dx%d' % (rows, cols), history=path_to(parent, keys[-1])))
    return acc


def path_to(parent, st):
    h = []
    while parent[st] is not None:
        st, op = parent[st]
        h.append(op)
    h.reverse()
    return h


def replay(spec):
    """Replays the history on ONE live screen object (no snapshot/restore)."""
    from mc.explore import unjson
    spec = unjson(spec)
    os.makedirs('/verif/.scratch', exist_ok=True)
    os.chdir('/verif/.scratch')
    task = spec['task']
    rows, cols = task['rows'], task['cols']
    CFG.update(enc=task.get('enc', 'latin-1'), errors=task.get('errors', 'replace'))
    s = new_screen(rows, cols)
    ref = Ref(rows, cols)
    out = {'violation': None, 'trace': []}
    hist = [tuple(op) for op in spec['history']]
    for i, op in enumerate(hist):
        if undecodable(op):
            before = impl_state(s)
            try:
                getattr(s, op[0])(*op[1:])
                out['violation'] = {'key': '%s:not-rejected' % op[0], 'msg': 'did not raise'}
                return out
            except UnicodeDecodeError:
                pass
            except Exception as e:
                out['violation'] = {'key': '%s:raised' % op[0], 'msg': repr(e)}
                return out
            got = impl_state(s) if shape_ok(s, rows, cols) else ('shape', repr(s.w))
            if got != before:
                out['violation'] = {'key': '%s:failed-op-changed-screen' % op[0], 'msg': '%r -> %r' % (before, got)}
                return out
            continue
        try:
            if i == len(hist) - 1:
                read_all(s)
            getattr(s, op[0])(*op[1:])
        except Exception as e:
            out['violation'] = {'key': '%s:raised' % op[0], 'msg': repr(e)}
            return out
        ref.apply(op)
        if not shape_ok(s, rows, cols):
            out['violation'] = {'key': '%s:shape' % op[0], 'msg': repr(s.w)}
            return out
        got, want = impl_state(s), ref.state()
        out['trace'].append([list(op), got])
        if got != want:
            what = 'grid' if got[0] != want[0] else 'cursor' if got[1:3] != want[1:3] else \
                'saved-cursor' if got[3:5] != want[3:5] else 'region'
            out['violation'] = {'key': '%s:%s' % (op[0], what), 'msg': 'impl %r ref %r' % (got, want)}
            return out
        r = check_accessors(s, ref, TEXT_ACCESSORS) if i == len(hist) - 1 else None
        if r:
            out['violation'] = {'key': '%s:stale-%s' % (op[0], r[0][0]), 'msg': '%r %s' % (r[0], r[1])}
            return out
    if 'accessor' in spec:
        r = check_accessors(s, ref, [tuple(spec['accessor'])])
        if r is not None:
            out['violation'] = {'key': 'accessor:%s' % r[0][0], 'msg': r[1]}
    return out
