"""C14 -- asyncio parity.  Call histories mixing awaited (async_=True) and blocking
expect-family calls on ONE real pexpect.spawn object over the controlled environment
and the controlled (real) asyncio event loop; every placement of the stream's chunks
and of EOF relative to the loop's select() calls, the transport's reads and the
blocking path's system calls is explored (deviation-bounded DFS).  Oracle: the naive
reference of C03 (which the blocking path is shown to equal) run on the chunks in the
order and at the call-relative instants the object actually received them."""
import asyncio
import itertools
import re

import pexpect
from pexpect import EOF, TIMEOUT

from mc import aio
from mc import env as E
from mc import refs
from mc.explore import dfs, Chooser, Cut
from mc.runner import Acc

PROPERTY = 'C14'
RULE = ('case = (stream, chunking, call history mixing sync/async, placement of every chunk and of EOF among the scheduling points '
        '(loop select, transport read, blocking-path system calls) within the deviation bound); non-trivial = at least one awaited call '
        'and one chunk arriving while a call is outstanding or between calls')
ASSUMPTIONS = ['the real SelectorEventLoop/_UnixReadPipeTransport run on the real descriptor; selector and loop.time are controlled',
               'reference = naive full re-search on the chunks in the order the object logged them (logfile_read), per call',
               'histories stop at the first EOF, as the statement does; deviation bound 1 (quick) / 2 (thorough)']
EXHAUSTIVE = False      # complete only within the deviation bound, see BOUND_NOTE
BOUND_NOTE = 'all schedules with at most 1 (quick) / 2 (thorough) non-default placements of peer actions are enumerated completely; schedules with more deviations are not explored'
REQUIRED_FLAGS = {'async_match': 1, 'async_timeout': 1, 'async_eof': 1, 'mixed': 1, 'data_between_calls': 1,
                  'awaited_window_smaller_than_pending': 1}

B = 0.25


class Rec(object):
    def __init__(self):
        self.items = []

    def write(self, s):
        self.items.append(s)

    def flush(self):
        pass


HISTORIES = []
_calls = [('a', 'expect', ('ab',), 0.3), ('s', 'expect', ('ab',), 0.3), ('a', 'expect_exact', ('b', 'a\xe9'), 0.3),
          ('a', 'expect', ('ab', 'TIMEOUT'), 0.3), ('a', 'expect_list', ('b', 'EOF'), None), ('s', 'expect_exact', ('b', 'a\xe9'), 0.3),
          ('a', 'expect', ('\xe9',), 0.3), ('a', 'expect', ('b',), 0), ('a', 'expect', ('ab', 'EOF'), None)]
_T0 = ('a', 'expect', ('b',), 0)
_ZW = ('a', 'expect', ('b*',), 0.3)           # can match the empty string: must answer at once, like the blocking call
_ZWX = ('a', 'expect_exact', ('', 'q'), 0.3)
for c in _calls + [_ZW, _ZWX, ('s', 'expect', ('b*',), 0.3)]:
    HISTORIES.append((c,))
# an awaited poll (T=0) first: EOF / data may land while its timeout is firing; the NEXT call must then see it
for c2 in _calls[:7] + [_T0, _ZW]:
    HISTORIES.append((_T0, c2))
HISTORIES.append((_ZW, _calls[0]))
HISTORIES.append((_calls[0], _ZW))
for c1 in _calls[:6]:
    for c2 in _calls[:7]:
        HISTORIES.append((c1, c2))
# a search window on awaited calls (text may arrive while nobody waits, with a window's worth already pending)
_W1 = ('a', 'expect', ('ab',), 0, 2)
_W2 = ('a', 'expect', ('ab',), 0.3, 2)
_W3 = ('s', 'expect', ('ab',), 0.3, 2)
_W4 = ('a', 'expect_exact', ('b', 'a\xe9'), 0.3, 1)
for h in ((_W2,), (_W1, _W2), (_W1, _W3), (_W1, _W1, _W2), (_W4,), (_W1, _W4), (_W2, _W2), (_W1, ('a', 'expect', ('ab',), 0.3, None)),
          # a window's worth pending after a timed-out call, then a poll during which more text lands
          (_W2, _W1), (('a', 'expect', ('ab',), 0.3), _W1), (_W3, _W1), (_W2, _W1, _W3)):
    HISTORIES.append(h)
TRIPLES = [(_calls[0], _calls[1], _calls[0]), (_calls[1], _calls[0], _calls[4]), (_calls[2], _calls[0], _calls[5]),
           (_calls[3], _calls[3], _calls[0]), (_calls[0], _calls[0], _calls[8])]


def streams(maxn):
    for n in range(1, maxn + 1):
        for t in itertools.product('ab\xe9', repeat=n):
            yield ''.join(t)


def bounds(tier):
    return dict(alphabet='a b e-acute', max_stream=3 if tier == 'quick' else 4, max_cuts=1 if tier == 'quick' else 2,
                histories=len(HISTORIES) + len(TRIPLES), deviation_bound='1 (quick; 2 for the search-window histories) / 2 (thorough)', modes=['bytes', 'utf-8'])


def tasks(tier):
    out = []
    hs = HISTORIES + TRIPLES
    for i in range(len(hs)):
        for mode in ('bytes', 'utf-8'):
            out.append(dict(h=i, mode=mode, tier=tier))
    return out


MARK = {'EOF': EOF, 'TIMEOUT': TIMEOUT}


def run_case(ch, mode, history, raw, cuts):
    aio.install()
    env = E.Env(ch)
    env.max_points = 50000
    obs = {'calls': []}
    viol = None
    sp = None
    loop = None
    try:
        enc = None if mode == 'bytes' else mode
        sp = E.pty_spawn(env, encoding=enc, timeout=5, spawn_kw=dict(raw=True))
        sp.delaybeforesend = None
        log = Rec()
        sp.logfile_read = log
        pieces = refs.split_at(raw, cuts)
        for p in pieces:
            env.add('w', p, fd=sp.hs_slave)
        env.add('exit', (sp.hs_proc, 0))
        loop = aio.new_loop()
        asyncio.set_event_loop(loop)
        S = (lambda s: s.encode('utf-8')) if enc is None else (lambda s: s)
        pending = S('')
        flags = set()
        for hcall in history:
            how, entry, names, T = hcall[:4]
            W = hcall[4] if len(hcall) > 4 else None        # a search window for this call
            kw_w = {'searchwindowsize': W} if len(hcall) > 4 else {}
            pats = [MARK[n] if n in MARK else S(n) for n in names]
            kind = 'exact' if entry == 'expect_exact' else 're'
            refpats = [p if p in (EOF, TIMEOUT) else (re.compile(p, re.DOTALL) if kind == 're' else p) for p in pats]
            mark = len(log.items)
            n_script0 = len(env.script)
            t0 = env.now()
            # is the stream already over when this call starts (peer gone, everything it wrote consumed)?
            eof_before_call = (not env.script) and (not sp.hs_proc.alive()) and not env.hbuf.get(sp.hs_master)
            if how == 'a' and env.hbuf.get(sp.hs_master):
                flags.add('data_between_calls')

            def call(async_):
                if entry == 'expect':
                    return sp.expect(pats, timeout=T, async_=async_, **kw_w)
                if entry == 'expect_exact':
                    return sp.expect_exact(pats, timeout=T, async_=async_, **kw_w)
                return sp.expect_list([p if p in (EOF, TIMEOUT) else re.compile(p, re.DOTALL) for p in pats], timeout=T, async_=async_, **kw_w)
            out = None
            unbounded0 = env.unbounded_waits
            try:
                if how == 's':
                    r = call(False)
                else:
                    r = loop.run_until_complete(call(True))
                out = ('ret', r)
            except TIMEOUT as e:
                out = ('TIMEOUT', None) if type(e) is TIMEOUT else ('exc', repr(e))
            except EOF as e:
                out = ('EOF', None) if type(e) is EOF else ('exc', repr(e))
            except (E.Hang, Cut, E.HarnessError):
                raise
            except BaseException as e:    # noqa
                out = ('exc', repr(e))
            elapsed = env.now() - t0
            chunks = list(log.items[mark:])
            rec = dict(how=how, entry=entry, names=names, T=T, out=out, before=sp.before, after=sp.after, buffer=None, chunks=chunks,
                       elapsed=round(elapsed, 4))
            obs['calls'].append(rec)
            if out[0] == 'exc':
                viol = ('exception', 'call %r raised %s' % ((how, entry, names, T), out[1]))
                break
            if any(type(c) is not type(pending) for c in chunks):
                viol = ('type', 'logfile_read got %r' % (chunks,))
                break
            # conservation at the transport: what the object has logged so far is the (incremental) decoding
            # of exactly the bytes it has taken from the descriptor so far -- nothing dropped on the way
            n_fired = len(pieces) - sum(1 for a_ in env.script if a_.kind == 'w')
            fired = b''.join(pieces[:n_fired])
            taken = fired[:len(fired) - len(env.hbuf.get(sp.hs_master, b''))]
            if enc is None:
                want_log = taken
            else:
                import codecs
                want_log = codecs.getincrementaldecoder(enc)().decode(taken)
            got_log = type(pending)().join(log.items)
            if got_log != want_log:
                viol = ('dropped', 'the object took %r from the descriptor but delivered %r to matching/logging' % (taken, got_log))
                break
            # outcome kind
            if out[0] == 'ret' and sp.after is TIMEOUT:
                okind = 'TIMEOUT'
            elif out[0] == 'ret' and sp.after is EOF:
                okind = 'EOF'
            elif out[0] == 'ret':
                okind = 'match'
            else:
                okind = out[0]
            if T is not None and elapsed > T + B:
                viol = ('late', '%s call with timeout %r took %.3fs' % ('awaited' if how == 'a' else 'blocking', T, elapsed))
                break
            if T is not None and env.unbounded_waits > unbounded0:
                # virtual time does not pass while the peer is forced to act: a timed call that goes to sleep with no
                # timer pending would wait for ever on a quiet stream
                viol = ('unbounded-wait', '%s call with timeout %r went into a wait without a deadline (nothing but the peer could end it)'
                        % ('awaited' if how == 'a' else 'blocking', T))
                break
            end = [TIMEOUT] if okind == 'TIMEOUT' else [EOF] if okind == 'EOF' else []
            ref = refs.naive_expect(kind, refpats, pending, chunks + end, W)
            if W and len(pending) >= W and how == 'a':
                flags.add('awaited_window_smaller_than_pending')
            if W and len(chunks) > 1:
                # With a window the verdict depends on how the low-level reads were gathered before a search
                # (the blocking pty read gathers everything readable, the awaited form searches text that landed
                # while its timeout was firing in one go): the implementation must agree with the reference for
                # SOME gathering of consecutive chunks.
                impl = (out[1], sp.before, sp.after) if okind == 'match' else okind
                for mask in range(1, 1 << (len(chunks) - 1)):
                    groups, sizes, cur, n_ = [], [], chunks[0], 1
                    for i_ in range(1, len(chunks)):
                        if (mask >> (i_ - 1)) & 1:
                            cur, n_ = cur + chunks[i_], n_ + 1
                        else:
                            groups.append(cur); sizes.append(n_); cur, n_ = chunks[i_], 1
                    groups.append(cur); sizes.append(n_)
                    r2 = refs.naive_expect(kind, refpats, pending, groups + end, W)
                    same = ((r2['outcome'] == 'match' and impl == (r2['index'], r2['before'], r2['after'])) if okind == 'match'
                            else r2['outcome'] != 'match')
                    agrees_now = ((ref['outcome'] == 'match' and impl == (ref['index'], ref['before'], ref['after'])) if okind == 'match'
                                  else ref['outcome'] != 'match')
                    if same and not agrees_now:
                        ref = dict(r2)
                        if r2['outcome'] == 'match':
                            ref['consumed'] = sum(sizes[:r2['consumed']])
                        flags.add('gathered_reads_under_window')
                        break
            if okind == 'match':
                rec['buffer'] = sp.buffer
                if ref['outcome'] != 'match':
                    viol = ('spurious', '%s call matched (before=%r after=%r) but the reference finds nothing in %r + %r'
                            % (how, sp.before, sp.after, pending, chunks))
                    break
                late = chunks[ref['consumed']:]
                want = (ref['index'], ref['before'], ref['after'], ref['rest'] + type(pending)().join(late))
                got = (out[1], sp.before, sp.after, sp.buffer)
                # (chunks that were taken after the deciding one are legitimate for both forms: the transport of the
                # awaited form delivers whatever has arrived, and the blocking pty read gathers everything that is
                # readable right now before it returns -- they must only end up, in order, in front of the buffer)
                if got != want:
                    viol = ('differs', '%s call: (index, before, after, buffer) = %r, reference %r; pending %r chunks %r'
                            % ('awaited' if how == 'a' else 'blocking', got, want, pending, chunks))
                    break
                if sp.match_index != out[1] or (kind == 're' and (not hasattr(sp.match, 'group') or sp.match.group(0) != sp.after
                                                                    or sp.match.groups() != ref['m'].groups())):
                    viol = ('match-attr', 'match attribute %r / match_index %r inconsistent with after=%r index=%r'
                            % (sp.match, sp.match_index, sp.after, out[1]))
                    break
                if late:
                    flags.add('late_data_appended')
                pending = sp.buffer
                if how == 'a':
                    flags.add('async_match')
            else:
                if ref['outcome'] == 'match':
                    # T = 0 may legitimately end before anything was read; with chunks logged the text was examined
                    viol = ('missed', '%s call reported %s but the reference matches %r after chunk %d; pending %r chunks %r'
                            % ('awaited' if how == 'a' else 'blocking', okind, ref['after'], ref['consumed'], pending, chunks))
                    break
                alltext = pending + type(pending)().join(chunks)
                if sp.before != alltext:
                    viol = ('before', '%s: before=%r, pending+received=%r' % (okind, sp.before, alltext))
                    break
                mk = TIMEOUT if okind == 'TIMEOUT' else EOF
                nm = 'TIMEOUT' if okind == 'TIMEOUT' else 'EOF'
                if nm in names:
                    if out != ('ret', names.index(nm)) or sp.match is not mk or sp.match_index != names.index(nm):
                        viol = ('marker-fields', '%s listed: out=%r match=%r match_index=%r' % (nm, out, sp.match, sp.match_index))
                        break
                else:
                    if out[0] != nm or sp.match is not None or sp.after is not mk:
                        viol = ('marker-fields', '%s not listed: out=%r after=%r match=%r' % (nm, out, sp.after, sp.match))
                        break
                if okind == 'TIMEOUT' and eof_before_call:
                    viol = ('eof-not-reported', '%s call reported TIMEOUT although the child had exited and all its output had been '
                            'consumed before the call started (the blocking call reports EOF)' % ('awaited' if how == 'a' else 'blocking'))
                    break
                if okind == 'TIMEOUT':
                    pending = alltext
                    if how == 'a':
                        flags.add('async_timeout')
                    if T is not None and T > 0 and elapsed < T - 1e-3:
                        viol = ('early-timeout', 'TIMEOUT after %.4fs < %r' % (elapsed, T))
                        break
                else:
                    if how == 'a':
                        flags.add('async_eof')
                    break        # histories stop at the first EOF
        hows = set(h[0] for h in history)
        if len(hows) == 2:
            flags.add('mixed')
        obs['flags'] = sorted(flags)
    except E.Hang as h:
        viol = ('hang', str(h))
    except Cut as c:
        viol = ('horizon', str(c))
    finally:
        try:
            if loop is not None:
                tr = getattr(sp, 'async_pw_transport', None) if sp is not None else None
                if tr:
                    try:
                        tr[1].abort()
                    except Exception:
                        pass
                aio.close_loop(loop)
                asyncio.set_event_loop(None)
        finally:
            if sp is not None:
                E.finalize_pty(sp)
            env.finish()
    return obs, viol


def run_task(task):
    acc = Acc()
    q = task['tier'] == 'quick'
    hist = (HISTORIES + TRIPLES)[task['h']]
    mode = task['mode']
    bound = 1 if q else 2
    if any(len(c) > 4 for c in hist):
        bound = 2       # two arrivals at chosen moments are the point of the window histories (they are few)
    maxcuts = 1 if q else 2
    for text in streams(3 if q else 4):
        raw = text.encode('utf-8')
        n = len(raw)
        for k in range(0, maxcuts + 1):
            for cuts in itertools.combinations(range(1, n), k):
                def run(ch):
                    return run_case(ch, mode, hist, raw, list(cuts))
                for ch, (obs, viol) in dfs(run, bound=bound):
                    acc.execs += 1
                    acc.transitions += len(obs.get('calls', ()))
                    fl = obs.get('flags', ())
                    for f in fl:
                        acc.flags[f] += 1
                    if any(c['how'] == 'a' and c['chunks'] for c in obs.get('calls', ())) or 'data_between_calls' in fl:
                        acc.nontrivial += 1
                    last = obs['calls'][-1] if obs.get('calls') else None
                    acc.outcomes['%s/%s' % ('viol:' + viol[0] if viol else 'ok', last and last['out'][0])] += 1
                    if viol:
                        c = obs['calls'][-1] if obs.get('calls') else {'how': '?', 'entry': '?', 'T': '?'}
                        acc.violation('%s:%s:%s:T=%s:%s' % (mode, 'awaited' if c['how'] == 'a' else 'blocking', c['entry'], c['T'], viol[0]),
                                      'stream %r cuts %r history %r: %s' % (raw, cuts, hist, viol[1]),
                                      dict(task=task, raw=raw, cuts=list(cuts), choices=ch.choices()))
    acc.states += 1
    acc.sample(dict(mode=mode, history=[list(c) for c in hist], stream='ab\xe9', cuts=[1]))
    return acc


def replay(spec):
    from mc.explore import unjson
    spec = unjson(spec)
    task = spec['task']
    hist = (HISTORIES + TRIPLES)[task['h']]
    obs, viol = run_case(Chooser(spec['choices']), task['mode'], hist, spec['raw'], spec['cuts'])
    out = {'observation': {'calls': [{k: repr(v) for k, v in c.items()} for c in obs.get('calls', ())]}, 'violation': None}
    if viol:
        c = obs['calls'][-1] if obs.get('calls') else {'how': '?', 'entry': '?', 'T': '?'}
        out['violation'] = {'key': '%s:%s:%s:T=%s:%s' % (task['mode'], 'awaited' if c['how'] == 'a' else 'blocking', c['entry'], c['T'], viol[0]),
                            'msg': viol[1]}
    return out
