"""Binds ProcSim (the only modelled OS behaviour) to the real kernel: every sequence of
kill / waitpid operations up to a bound, on real /bin/sh children of four kinds,
must get exactly the answers ProcSim gives.  Synchronisation uses
waitid(..., WNOWAIT) on the outcome ProcSim predicts, so there is no timing guess."""
import errno
import itertools
import os
import signal
import time

from mc import env as E
from mc.explore import Chooser

OPS = [('kill', signal.SIGHUP), ('kill', signal.SIGINT), ('kill', signal.SIGCONT), ('kill', signal.SIGSTOP),
       ('kill', signal.SIGTERM), ('kill', signal.SIGKILL), ('kill', 0), ('wait', os.WNOHANG), ('wait', 0)]
KINDS = ['default', 'ignore', 'exit7', 'exit0', 'selfkill15', 'selfkill9']


def spawn_real(kind):
    r, w = os.pipe()
    pid = os.fork()
    if pid == 0:
        try:
            os.close(r)
            os.dup2(w, 1)
            if kind == 'default':
                os.execv('/bin/sh', ['sh', '-c', 'echo r; exec sleep 1000'])
            elif kind == 'ignore':
                os.execv('/bin/sh', ['sh', '-c', "trap '' HUP INT; echo r; exec sleep 1000"])
            elif kind.startswith('exit'):
                os.execv('/bin/sh', ['sh', '-c', 'echo r; exit %s' % kind[4:]])
            else:
                os.execv('/bin/sh', ['sh', '-c', 'echo r; kill -%s $$' % kind[8:]])
        finally:
            os._exit(127)
    os.close(w)
    os.read(r, 2)
    os.close(r)
    if kind.startswith(('exit', 'selfkill')):
        os.waitid(os.P_PID, pid, os.WEXITED | os.WNOWAIT)
    else:
        # make sure exec(sleep) has happened, so that sh itself no longer interprets signals
        for _ in range(2000):
            try:
                if b'sleep' in open('/proc/%d/cmdline' % pid, 'rb').read():
                    break
            except OSError:
                break
            time.sleep(0.0005)
    return pid


def run_sequence(kind, seq):
    """Returns (real answers, model answers, skipped)."""
    env = E.Env(Chooser(()))
    try:
        if kind == 'ignore':
            p = env.procs.new(ignore=(signal.SIGHUP, signal.SIGINT))
        else:
            p = env.procs.new()
        if kind.startswith('exit'):
            env.procs.exit(p, int(kind[4:]))
        elif kind.startswith('selfkill'):
            env.procs.killed(p, int(kind[8:]))
        pid = spawn_real(kind)
        real, model = [], []
        try:
            for op, arg in seq:
                if op == 'wait' and arg == 0 and p.state in ('running', 'stopped'):
                    real.append('skip')
                    model.append('skip')
                    continue
                before = p.state
                # model
                try:
                    if op == 'kill':
                        m = env.procs.kill(p.pid, arg)
                    else:
                        m = env.procs.waitpid(p.pid, arg)
                        m = (m[0] != 0, m[1])
                except OSError as e:
                    m = ('err', e.errno)
                # real
                try:
                    if op == 'kill':
                        r = os.kill(pid, arg)
                    else:
                        r = os.waitpid(pid, arg)
                        r = (r[0] != 0, r[1])
                except OSError as e:
                    r = ('err', e.errno)
                real.append(r)
                model.append(m)
                # synchronise the real child with the predicted state change
                if op == 'kill' and before != p.state:
                    if p.state == 'zombie':
                        os.waitid(os.P_PID, pid, os.WEXITED | os.WNOWAIT)
                    elif p.state == 'stopped':
                        os.waitid(os.P_PID, pid, os.WSTOPPED | os.WNOWAIT)
                    elif p.state == 'running':
                        os.waitid(os.P_PID, pid, os.WCONTINUED | os.WNOWAIT)
        finally:
            try:
                os.kill(pid, signal.SIGKILL)
            except OSError:
                pass
            try:
                os.waitpid(pid, 0)
            except OSError:
                pass
        return real, model
    finally:
        env.finish()


def run(maxlen, part=0, parts=1):
    """Returns (sequences run, mismatches list)."""
    n = 0
    bad = []
    idx = 0
    for kind in KINDS:
        for ln in range(1, maxlen + 1):
            for seq in itertools.product(OPS, repeat=ln):
                idx += 1
                if idx % parts != part:
                    continue
                real, model = run_sequence(kind, seq)
                n += 1
                if real != model:
                    bad.append((kind, [(o, int(a)) for o, a in seq], real, model))
    return n, bad


if __name__ == '__main__':
    import sys
    n, bad = run(int(sys.argv[1]) if len(sys.argv) > 1 else 2)
    print(n, 'sequences', len(bad), 'mismatches')
    for b in bad[:10]:
        print(b)
