"""C04 part B: EOF/TIMEOUT outcomes on every real transport class (controlled environment)."""
import itertools

import pexpect
from pexpect import EOF, TIMEOUT

from mc import env as E
from mc import transports as TR
from mc.explore import Chooser, Cut
from mc.runner import Acc

SCENARIOS = ['eof-sticky', 'timeout0', 'timeout-small', 'timeout-listed', 'pending-beats-eof', 'eof-listed', 'closed-object-message',
             'dead-child-silent-tty', 'split-char-not-eof']


def tasks(tier):
    t = [dict(part='B', transport=tr, mode=m) for tr in TR.NAMES for m in ('bytes', 'utf-8')]
    t.append(dict(part='B', transport='pxssh-before-login', mode='bytes'))
    return t


def run_case(task, scen, entry):
    env = E.Env(Chooser(()))
    link = None
    viol = None
    obs = {}
    try:
        enc = None if task['mode'] == 'bytes' else task['mode']
        link = TR.Link(env, task['transport'], timeout=0.3, encoding=enc)
        sp = link.sp
        if task['transport'] == 'popen':
            env.eager_reader = True
            sp.delayafterread = 0.01
        S = (lambda s: s.encode('ascii')) if enc is None else (lambda s: s)

        def call(pats, T):
            if entry == 'expect':
                return sp.expect(pats, timeout=T)
            if entry == 'expect_exact':
                return sp.expect_exact(pats, timeout=T)
            import re
            return sp.expect_list([p if p in (EOF, TIMEOUT) else re.compile(p) for p in pats], timeout=T)

        def must_raise(cls, pats, T, before):
            t0 = env.now()
            try:
                r = call(pats, T)
            except BaseException as e:
                if type(e) is not cls:
                    return ('wrong-exception', 'expected exactly %s, got %r' % (cls.__name__, e))
                if e.__cause__ is not None:
                    return ('cause', repr(e.__cause__))
                if sp.before != before or sp.after is not cls or sp.match is not None or sp.match_index is not None:
                    return ('fields', '%s raised: before=%r after=%r match=%r idx=%r (expected before %r)'
                            % (cls.__name__, sp.before, sp.after, sp.match, sp.match_index, before))
                if 'searcher' not in str(e):
                    return ('message', 'no diagnostic text: %r' % str(e)[:60])
                return None
            return ('no-exception', 'expected %s, call returned %r' % (cls.__name__, r))

        if scen == 'eof-sticky':
            link.w(b'xx', at=0.01)
            link.exit(0, at=0.02)
            viol = must_raise(EOF, [S('zz')], 0.3, S('xx'))
            if viol is None and sp.buffer != S(''):
                viol = ('eof-not-cleared', 'buffer after EOF %r' % (sp.buffer,))
            for k, nxt in enumerate(('raise', 'index', 'readline', 'read', 'rnb', 'raise')):
                if viol:
                    break
                t0 = env.now()
                if nxt == 'raise':
                    viol = must_raise(EOF, [S('q')], None, S(''))
                elif nxt == 'index':
                    r = call([S('q'), EOF], None)
                    if r != 1 or sp.before != S('') or sp.after is not EOF:
                        viol = ('eof-not-sticky', 'call after EOF returned %r before=%r after=%r' % (r, sp.before, sp.after))
                elif nxt == 'readline':
                    sp.timeout = None
                    r = sp.readline()
                    if r != S(''):
                        viol = ('eof-not-sticky', 'readline after EOF returned %r' % (r,))
                elif nxt == 'read':
                    r = sp.read(3)
                    if r != S(''):
                        viol = ('eof-not-sticky', 'read after EOF returned %r' % (r,))
                else:
                    try:
                        r = sp.read_nonblocking(5, None)
                        viol = ('eof-not-sticky', 'read_nonblocking after EOF returned %r' % (r,))
                    except EOF:
                        pass
                if viol is None and env.now() - t0 > 0.05:
                    viol = ('eof-slow', 'call %d after EOF took %.3fs' % (k, env.now() - t0))
        elif scen == 'timeout0':
            viol = must_raise(TIMEOUT, [S('zz')], 0, S(''))
            if viol is None:
                link.now_w(b'ab')
                viol = must_raise(TIMEOUT, [S('zz')], 0, S('ab') if task['transport'] != 'popen' or True else S(''))
        elif scen == 'timeout-small':
            link.w(b'a', at=0.05)
            viol = must_raise(TIMEOUT, [S('zz')], 0.1, S('a'))
            if viol is None:
                # nothing was consumed
                link.now_w(b'zz')
                r = call([S('zz')], 0.1)
                if r != 0 or sp.before != S('a'):
                    viol = ('timeout-consumed', 'after TIMEOUT, match before=%r (expected %r)' % (sp.before, S('a')))
        elif scen == 'timeout-listed':
            r = call([S('zz'), TIMEOUT], 0.05)
            if r != 1 or sp.after is not TIMEOUT or sp.match is not TIMEOUT or sp.match_index != 1 or sp.before != S(''):
                viol = ('fields', 'TIMEOUT listed: ret=%r after=%r match=%r before=%r' % (r, sp.after, sp.match, sp.before))
        elif scen == 'pending-beats-eof':
            link.now_w(b'azzb')
            link.now_exit(0)
            r = call([S('zz'), EOF], 0.3)
            if r != 0 or sp.before != S('a') or sp.after != S('zz'):
                viol = ('pending-occurrence-lost', 'occurrence before EOF: ret=%r before=%r after=%r' % (r, sp.before, sp.after))
            else:
                r = call([S('zz'), EOF], 0.3)
                if r != 1 or sp.before != S('b'):
                    viol = ('fields', 'EOF after the match: ret=%r before=%r' % (r, sp.before))
        elif scen == 'closed-object-message':
            # the diagnostic message is built from str(spawn): also on an object that was closed,
            # with text still pending and an already expired timeout (no I/O is attempted)
            link.now_w(b'zq')
            r = call([S('z')], 0.3)
            if task['transport'] != 'popen':
                try:
                    sp.close()
                except Exception as e:
                    viol = ('exception', 'close() raised %r' % (e,))
            if viol is None:
                viol = must_raise(TIMEOUT, [S('nomatch')], -0.5, S('q'))
        elif scen == 'dead-child-silent-tty':
            # the child is gone but the terminal is neither readable nor hung up (something else still holds
            # the slave side): the stream has ended, whatever the timeout of the call that notices it
            if link.proc is None or not task['transport'].startswith('pty'):
                return {'skipped': True}, None
            link.now_w(b'q')
            link.proc.on_death = None
            link.now_exit(0)
            for n, T in enumerate((0.3, 0, 0.3, 0) if entry != 'expect_list' else (0, 0, 0.3)):
                t0 = env.now()
                r = call([S('zz'), TIMEOUT, EOF], T)
                if n == 0 and T == 0 and r == 1 and sp.before == S('q'):
                    # a poll that had something to read may use up its time; the next one finds the end
                    r = call([S('zz'), TIMEOUT, EOF], T)
                if r != 2 or sp.after is not EOF:
                    viol = ('dead-child-not-eof', 'child dead, terminal silent, timeout %r: returned index %r (after=%r, before=%r), expected EOF'
                            % (T, r, sp.after, sp.before))
                    break
                if env.now() - t0 > 0.35:
                    viol = ('eof-slow', 'took %.3fs' % (env.now() - t0))
                    break
        elif scen == 'split-char-not-eof':
            # unicode mode, reads smaller than a character: a read that decodes to nothing is not the end of the stream
            if enc is None:
                return {'skipped': True}, None
            sp.maxread = 1
            link.now_w('a\xe9\u20aczz'.encode(enc))
            r = call(['zz', EOF, TIMEOUT], 0.3)
            if r != 0 or sp.before != 'a\xe9\u20ac':
                viol = ('false-eof' if r == 1 else 'fields', 'maxread=1, stream %r still open: returned index %r (before=%r after=%r), expected the match'
                        % ('a\xe9\u20aczz', r, sp.before, sp.after))
            elif sp.flag_eof:
                viol = ('false-eof', 'flag_eof set although the peer has not closed')
        elif scen == 'eof-listed':
            link.now_w(b'q')
            link.now_exit(0)
            r = call([EOF, S('zz')], 0.3)
            if r != 0 or sp.before != S('q') or sp.after is not EOF or sp.match is not EOF or sp.match_index != 0:
                viol = ('fields', 'EOF listed: ret=%r before=%r after=%r match=%r' % (r, sp.before, sp.after, sp.match))
        obs = dict(before=sp.before, after=sp.after)
    except E.Hang as h:
        viol = ('hang', 'blocked for ever: %s' % h)
    except Cut as c:
        viol = ('horizon', str(c))
    except E.HarnessError:
        raise
    except Exception as e:
        viol = ('exception', 'raised %r' % (e,))
    finally:
        if link is not None:
            link.finish()
        else:
            env.finish()
    return obs, viol


def run_pxssh(entry, enc, T):
    from pexpect import pxssh
    E.install()
    try:
        p = pxssh.pxssh(encoding=enc)
        S = (lambda s: s.encode('ascii')) if enc is None else (lambda s: s)
        try:
            if entry == 'expect':
                p.expect(S('x'), timeout=T)
            else:
                p.expect_exact([S('x')], timeout=T)
        except TIMEOUT as e:
            if type(e) is not TIMEOUT or 'searcher' not in str(e):
                return ('message', repr(str(e))[:80])
            if p.before != S('') or p.after is not TIMEOUT:
                return ('fields', 'before=%r after=%r' % (p.before, p.after))
            return None
        except BaseException as e:
            return ('wrong-exception', 'pxssh() before login, timeout %r: %r' % (T, e))
        return ('no-exception', 'returned')
    finally:
        pass


def run_task(task):
    acc = Acc()
    if task['transport'] == 'pxssh-before-login':
        for entry in ('expect', 'expect_exact'):
            for enc in (None, 'utf-8'):
                for T in (-5, -0.5):
                    v = run_pxssh(entry, enc, T)
                    acc.execs += 1
                    acc.transitions += 1
                    acc.nontrivial += 1
                    acc.flags['timeout_raised'] += 1
                    acc.outcomes['pxssh:%s' % ('viol' if v else 'ok')] += 1
                    if v:
                        acc.violation('B:pxssh-before-login:%s:%s' % (entry, v[0]), v[1], dict(task=task, entry=entry, enc=enc, T=T))
        acc.states += 1
        return acc
    for scen in SCENARIOS:
        for entry in ('expect', 'expect_exact', 'expect_list'):
            obs, viol = run_case(task, scen, entry)
            acc.execs += 1
            acc.transitions += 1
            acc.nontrivial += 1
            acc.outcomes['B:%s:%s' % (scen, 'viol' if viol else 'ok')] += 1
            if not viol and not obs.get('skipped'):
                acc.flags[{'split-char-not-eof': 'reads_smaller_than_a_character', 'dead-child-silent-tty': 'dead_child_silent_tty', 'closed-object-message': 'timeout_raised', 'eof-sticky': 'after_eof_again', 'timeout0': 'timeout_raised', 'timeout-small': 'timeout_raised',
                           'timeout-listed': 'timeout_index', 'pending-beats-eof': 'pending_beats_marker', 'eof-listed': 'eof_index'}[scen]] += 1
            if viol:
                acc.violation('B:%s:%s:%s:%s' % (task['transport'], entry, scen, viol[0]), viol[1],
                              dict(task=task, scen=scen, entry=entry))
    acc.states += 1
    acc.sample(dict(task=task, scenario='eof-sticky', entry='expect_exact'))
    return acc


def replay(spec):
    task = spec['task']
    out = {'violation': None}
    if task['transport'] == 'pxssh-before-login':
        v = run_pxssh(spec['entry'], spec['enc'], spec['T'])
        if v:
            out['violation'] = {'key': 'B:pxssh-before-login:%s:%s' % (spec['entry'], v[0]), 'msg': v[1]}
        return out
    obs, viol = run_case(task, spec['scen'], spec['entry'])
    out['observation'] = {k: repr(v) for k, v in obs.items()}
    if viol:
        out['violation'] = {'key': 'B:%s:%s:%s:%s' % (task['transport'], spec['entry'], spec['scen'], viol[0]), 'msg': viol[1]}
    return out
