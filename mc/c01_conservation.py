"""C01 -- stream conservation.  Explicit-state BFS over the real SpawnBase /
Expecter / searcher code (ScriptSpawn seam), to the fix-point of the finite
state space obtained by bounding the total stream length L.

state      = (hidden _before, hidden _buffer, reference pending text P,
              remaining stream budget, eof-seen)
transition = one API call + the complete sequence of environment answers
             (chunk / empty chunk / TIMEOUT / EOF) it consumed (nested DFS).
oracle     = pending-text ledger, checked on every transition (compositional,
             so deduplication of states is sound).
Every newly discovered state is also re-reached by running its whole history
on ONE live object (no snapshot/restore) and must be identical - this binds the
snapshot/restore abstraction to the real object.
"""
import itertools
import re

from pexpect import EOF, TIMEOUT

from mc.explore import Chooser, dfs, NondeterminismError
from mc.runner import Acc
from mc.script_spawn import ScriptSpawn, install_clock
from mc.vclock import CLOCK

PROPERTY = 'C01'
RULE = ('explicit-state BFS to fix-point; a case is one transition (state, API call, '
        'answer sequence); non-trivial = the call received or consumed text '
        '(D or P non-empty) ; distinct = distinct (state, call, answers) by construction')
ASSUMPTIONS = [
    'stream alphabet and total stream length are bounded as listed in bounds',
    'chunks per read are 0..2 characters (every splitting of the bounded stream is produced by construction); in a timed call a one-character chunk may also arrive with the clock moved past the deadline',
    'transport read_nonblocking is replaced by a scripted one; the real transports are covered by C05/C06/C07',
]
STATES_MEANING = 'distinct canonical states (hidden _before, hidden _buffer, reference pending text, remaining budget, eof, aliasing) after deduplication, summed over tasks; transitions = (state, call, answer sequence) triples executed on the real code'
REQUIRED_FLAGS = {'boundary_inside_match': 1, 'timeout_between_calls': 1, 'empty_read': 1,
                  'zero_width_match': 1, 'window_trim': 1}

MARK = {'EOF': EOF, 'TIMEOUT': TIMEOUT}


def bounds(tier):
    return {'tasks': tasks(tier)}


def tasks(tier):
    out = []
    quick = tier == 'quick'
    for mode in ('bytes', 'utf-8'):
        for inst_sw in (None, 2):
            for menu, sigma, L in (
                    ('re', 'ab', 4 if quick else 6),
                    ('zw', 'ab\n', 3 if quick else 5),
                    ('exact', 'ab', 4 if quick else 6),
                    ('lines', 'a\r\n', 4 if quick else 5),
                    ('mix', 'ab\n', 3 if quick else 5)):
                out.append(dict(mode=mode, inst_sw=inst_sw, menu=menu, sigma=sigma, L=L))
    # a descriptor that reports EOF and later delivers more (regular file that grows, re-opened FIFO)
    out.append(dict(mode='bytes', inst_sw=None, menu='re', sigma='ab', L=3 if quick else 5, resume_after_eof=True))
    out.append(dict(mode='utf-8', inst_sw=None, menu='lines', sigma='a\r\n', L=3 if quick else 4, resume_after_eof=True))
    if not quick:
        for menu in ('re', 'exact', 'mix'):
            out.append(dict(mode='bytes', inst_sw=None, menu=menu, sigma='ab', L=8))
            out.append(dict(mode='bytes', inst_sw=3, menu=menu, sigma='ab', L=7))
        out.append(dict(mode='utf-8', inst_sw=None, menu='lines', sigma='ab\r\n', L=5))
        out.append(dict(mode='utf-8', inst_sw=1, menu='zw', sigma='ab\n', L=5))
    return out


def menu_calls(name, L):
    c = []
    SW = (-1, None, 1, 2, 3)
    if name == 're':
        for p in (('ab',), ('b',), ('a|ba',)):
            for sw in SW:
                c.append(('expect', p, sw, 5))
        c += [('expect', ('ab',), -1, 0), ('expect', ('ab',), -1, None),
              ('expect', ('ab', 'TIMEOUT'), -1, 5), ('expect', ('ab', 'TIMEOUT'), 2, 0),
              ('expect', ('ab', 'EOF'), -1, 5), ('expect', ('TIMEOUT', 'b', 'EOF'), -1, 5),
              ('list', ('ab', 'b'), -1, 5), ('list', ('ba',), L + 1, 5),
              ('read', 1), ('read', 2), ('read', -1),
              ('setbuf', 'empty'), ('setbuf', 'b'), ('setbuf', 'cur+a'), ('setsw', None), ('setsw', 2)]
    elif name == 'zw':
        for p in (('b*',), ('a$',), ('$',), ('\\Z',), ('(?=b)',), ('^',), ('a*?',)):
            for sw in (-1, None, 1, 2):
                c.append(('expect', p, sw, 5))
        c += [('expect', ('$', 'TIMEOUT'), -1, 0), ('expect', ('b*', 'EOF'), -1, None),
              ('expect', ('ab',), -1, 5), ('read', 1), ('read', -1), ('setbuf', 'b')]
    elif name == 'exact':
        for p in (('ab',), ('ba', 'b'), ('abab',)):
            for sw in SW:
                c.append(('exact', p, sw, 5))
        c += [('exact', ('ab',), -1, 0), ('exact', ('ab',), -1, None),
              ('exact', ('ab', 'TIMEOUT'), -1, 5), ('exact', ('aba', 'TIMEOUT'), 2, 0),
              ('exact', ('EOF', 'ab'), -1, 5), ('exact', ('ab',), L + 1, 5),
              ('expect', ('ab',), -1, 5), ('read', 1), ('read', -1),
              ('setbuf', 'b'), ('setbuf', 'cur+a')]
    elif name == 'lines':
        c += [('readline',), ('readlines',), ('iter',), ('read', 1), ('read', 2), ('read', -1),
              ('expect', ('a',), -1, 5), ('expect', ('\n',), 1, 5), ('exact', ('\r\n',), -1, 5),
              ('exact', ('\r\n', 'TIMEOUT'), 1, 0), ('expect', ('a', 'TIMEOUT'), -1, 5),
              ('setbuf', 'empty'), ('setbuf', 'cur+a')]
    elif name == 'mix':
        c += [('expect', ('ab',), -1, 5), ('expect', ('ab',), 2, 5), ('expect', ('b',), 1, 5),
              ('exact', ('ab',), -1, 5), ('exact', ('ab',), 2, 5), ('exact', ('ba', 'b'), None, 5),
              ('expect', ('$',), -1, 5), ('expect', ('b*',), 2, 5), ('expect', ('a$',), None, 5),
              ('expect', ('ab', 'TIMEOUT'), -1, 0), ('exact', ('ab', 'TIMEOUT'), 3, 5),
              ('list', ('a', 'EOF'), -1, None),
              ('read', 2), ('read', -1), ('readline',), ('setbuf', 'b'), ('setbuf', 'cur+a'), ('setsw', None), ('setsw', 1)]
    return c


class Livelock(BaseException):
    pass


class World(object):
    """One task's configuration + the code that performs one API call."""

    def __init__(self, task):
        self.task = task
        self.enc = None if task['mode'] == 'bytes' else task['mode']
        self.sigma = [ch.encode('ascii') for ch in task['sigma']]
        self.chunks = {}
        # chunks per read: 1..maxchunk characters (2 unless the task says otherwise)
        self.maxchunk = task.get('maxchunk', 2)
        for b in range(0, self.maxchunk + 1):
            lst = []
            for n in range(1, b + 1):
                for t in itertools.product(self.sigma, repeat=n):
                    lst.append(b''.join(t))
            self.chunks[b] = lst
        self.calls = menu_calls(task['menu'], task['L'])
        self._cre = {}

    def S(self, s):           # str -> native string type of the mode
        return s.encode('ascii') if self.enc is None else s

    def new_spawn(self):
        sp = ScriptSpawn(None, timeout=5, searchwindowsize=self.task['inst_sw'],
                         encoding=self.enc, maxread=self.task.get('maxread', 2000))
        return sp

    def pats(self, names, compiled=False):
        out = []
        for n in names:
            if n in MARK:
                out.append(MARK[n])
            elif compiled:
                k = (n, self.enc is None)
                if k not in self._cre:
                    self._cre[k] = re.compile(self.S(n), re.DOTALL)
                out.append(self._cre[k])
            else:
                out.append(self.S(n))
        return out

    def do_call(self, sp, env, call, ch, flags=None):
        """Perform `call` on spawn `sp` in environment state env=[budget, eof, P].
        Returns (outcome string, violation or None).  Updates env in place."""
        received = []
        used_empty = [False]
        nreads = [0]
        pre_timeout = [False]

        answers = []

        def answer(size, timeout):
            a = answer_(size, timeout)
            answers.append(a)
            return a

        max_reads = env[0] + 12

        def answer_(size, timeout):
            nreads[0] += 1
            if nreads[0] > max_reads:
                raise Livelock()
            if env[1] and not self.task.get('resume_after_eof'):
                return EOF
            opts = list(self.chunks[min(self.maxchunk, env[0])])
            if not used_empty[0]:
                opts.append(b'')
            if timeout is not None:
                opts.append(TIMEOUT)
            opts.append(EOF)
            # environment answer "the data arrives just as the deadline passes": the read returns one
            # character, but the clock has moved beyond the end of the call's time limit meanwhile
            n_ontime = len(opts)
            if timeout is not None:
                opts += self.chunks[min(1, env[0])]
            k = ch.choose(len(opts), 'read')
            a = opts[k]
            if k >= n_ontime:
                CLOCK.now += timeout + 0.001
                if flags is not None:
                    flags['late_chunk'] += 1
            if a is EOF:
                env[1] = True
            elif a is TIMEOUT:
                pass
            else:
                env[1] = False         # (resume_after_eof tasks: a growing file delivers again after EOF)
                if a == b'':
                    used_empty[0] = True
                    if flags is not None:
                        flags['empty_read'] += 1
                env[0] -= len(a)
                received.append(a)
            return a

        sp.answer = answer
        P = env[2]
        kind = call[0]
        exc = None
        ret = None
        try:
            if kind in ('expect', 'exact', 'list'):
                _, names, sw, T = call
                if kind == 'expect':
                    ret = sp.expect(self.pats(names), timeout=T, searchwindowsize=sw)
                elif kind == 'exact':
                    ret = sp.expect_exact(self.pats(names), timeout=T, searchwindowsize=sw)
                else:
                    ret = sp.expect_list(self.pats(names, compiled=True), timeout=T,
                                         searchwindowsize=sw)
            elif kind == 'read':
                ret = sp.read(call[1])
            elif kind == 'readline':
                ret = sp.readline()
            elif kind == 'readlines':
                sp.timeout = None
                ret = sp.readlines()
                sp.timeout = 5
            elif kind == 'iter':
                sp.timeout = None
                try:
                    ret = next(iter(sp))
                except StopIteration:
                    ret = 'STOP'
                sp.timeout = 5
            elif kind == 'setsw':
                # the instance default search window is changed between two calls (documented attribute)
                sp.searchwindowsize = call[1]
                return 'setsw', None
            elif kind == 'setbuf':
                if call[1] in ('cur+a', 'b'):
                    # injected text is charged to the stream budget (keeps the space finite)
                    if env[0] < 1:
                        return 'setbuf-skip', None
                    env[0] -= 1
                x = {'empty': self.S(''), 'b': self.S('b'),
                     'cur+a': sp.buffer + self.S('a')}[call[1]]
                sp.buffer = x
                env[2] = x
                return 'setbuf', None
        except Livelock:
            sp.timeout = 5
            return 'livelock', ('livelock', 'call %r performed more than %d reads without returning' % (call, max_reads))
        except TIMEOUT as e:
            exc = TIMEOUT
            if type(e) is not TIMEOUT:
                return 'exc', ('wrong-exception', 'raised %r' % (type(e),))
        except EOF as e:
            exc = EOF
            if type(e) is not EOF:
                return 'exc', ('wrong-exception', 'raised %r' % (type(e),))
        finally:
            sp.timeout = 5
        raw = b''.join(received)
        D = raw if self.enc is None else raw.decode(self.enc)
        self.last = dict(received=list(received), answers=list(answers), exc=exc, ret=ret, P=P, D=D)
        T_ = P + D
        empty = self.S('')
        viol = None
        if kind in ('expect', 'exact', 'list'):
            if exc is TIMEOUT or (exc is None and sp.after is TIMEOUT):
                out = 'TIMEOUT'
                if sp.before != T_:
                    viol = ('timeout-before', 'after TIMEOUT before=%r but pending+received=%r'
                            % (sp.before, T_))
                env[2] = T_
                if flags is not None and T_:
                    flags['timeout_between_calls'] += 1
            elif exc is EOF or (exc is None and sp.after is EOF):
                out = 'EOF'
                if sp.before != T_:
                    viol = ('eof-before', 'after EOF before=%r but pending+received=%r'
                            % (sp.before, T_))
                env[2] = empty
            else:
                out = 'match'
                try:
                    tot = sp.before + sp.after + sp.buffer
                except TypeError:
                    tot = None
                if tot != T_:
                    sym = 'mismatch'
                    if tot is not None:
                        if len(tot) < len(T_):
                            sym = 'lost'
                        elif len(tot) > len(T_):
                            sym = 'duplicated'
                    viol = (sym, 'match: before=%r after=%r buffer=%r but pending+received=%r'
                            % (sp.before, sp.after, sp.buffer, T_))
                env[2] = sp.buffer
                if flags is not None:
                    if sp.after == empty:
                        flags['zero_width_match'] += 1
                    # did a read boundary fall strictly inside the matched occurrence?
                    if len(received) >= 1 and sp.after:
                        st = len(sp.before)
                        en = st + len(sp.after)
                        pos = len(P)
                        for chunk in received[:-1] if False else received:
                            if st < pos < en:
                                flags['boundary_inside_match'] += 1
                                break
                            pos += len(chunk if self.enc is None else chunk.decode(self.enc))
                    if len(sp._buffer.getvalue()) < len(sp._before.getvalue()):
                        flags['window_trim'] += 1
        elif kind in ('read', 'readline', 'iter'):
            if exc is not None:
                out = exc.__name__
                # read/readline list EOF as delimiter, so only TIMEOUT can escape
                if exc is TIMEOUT:
                    if sp.before != T_:
                        viol = ('timeout-before', '%s: TIMEOUT with before=%r pending+received=%r'
                                % (kind, sp.before, T_))
                    env[2] = T_
                else:
                    viol = ('unexpected-eof', '%s raised EOF' % kind)
            else:
                if ret == 'STOP':
                    ret = empty
                out = 'value'
                # ledger of the underlying expect (the statement counts before+after)
                if sp.after is EOF:
                    tot = sp.before
                    rest = empty
                    want = sp.before
                else:
                    tot = sp.before + sp.after + sp.buffer
                    rest = sp.buffer
                    want = sp.after if kind == 'read' else sp.before + sp.after
                if tot != T_:
                    viol = ('ledger-mismatch', '%s: before=%r after=%r buffer=%r but pending+received=%r'
                            % (kind, sp.before, sp.after, sp.buffer, T_))
                elif ret != want:
                    viol = ('value-mismatch', '%s returned %r, expected %r' % (kind, ret, want))
                env[2] = rest
            if flags is not None and exc is None and len(sp._buffer.getvalue()) < len(sp._before.getvalue()):
                flags['window_trim'] += 1
        elif kind == 'readlines':
            if exc is not None:
                out = exc.__name__
                viol = ('unexpected-exc', 'readlines raised %s' % exc.__name__)
            else:
                out = 'value'
                if empty.join(ret) != T_:
                    viol = ('value-mismatch', 'readlines returned %r but pending+received=%r'
                            % (ret, T_))
                env[2] = empty
        if flags is not None and (T_ or nreads[0]):
            flags['_nontrivial'] += 1
        if flags is not None and sp.searchwindowsize and len(sp._buffer.getvalue()) < len(sp._before.getvalue()):
            flags['window_trim'] += 1
        return out, viol

    def run_history(self, history):
        """Run a whole history [(call, choices), ...] on ONE live object."""
        CLOCK.reset()
        sp = self.new_spawn()
        env = [self.task['L'], False, self.S('')]
        obs = []
        for call, choices in history:
            ch = Chooser(choices)
            out, viol = self.do_call(sp, env, tuple(call) if not isinstance(call, tuple) else call, ch)
            obs.append({'call': call, 'outcome': out, 'before': sp.before, 'after': sp.after,
                        'buffer': sp.buffer, 'P': env[2]})
            if viol:
                return sp, env, obs, viol
        return sp, env, obs, None


def canon_call(call):
    return tuple(tuple(x) if isinstance(x, list) else x for x in call)


def vkey(call, sym):
    call = canon_call(call)
    if call[0] in ('expect', 'exact', 'list'):
        return '%s:%s:%s' % (call[0], '|'.join(call[1]), sym)
    if call[0] == 'setsw':
        return 'setsw:%s' % sym
    return '%s:%s' % (call[0], sym)


def run_task(task, world_cls=None):
    install_clock()
    acc = Acc()
    w = (world_cls or World)(task)
    init = (w.S(''), w.S(''), w.S(''), task['L'], False, False, task['inst_sw'], (0, 0))
    cap = task.get('cap', 400000)
    parent = {init: None}
    frontier = [init]
    depth = 0
    import collections
    flags = collections.Counter()
    live_checked = 0
    while frontier:
        nxt = []
        for st in frontier:
            for call in w.calls:
                def run(ch, st=st, call=call):
                    CLOCK.reset()
                    sp = w.new_spawn()
                    sp.restore(st[0], st[1], st[5], st[7])
                    sp.searchwindowsize = st[6]
                    env = [st[3], st[4], st[2]]
                    out, viol = w.do_call(sp, env, call, ch, flags)
                    b, f = sp.snap()
                    return out, viol, (b, f, env[2], env[0], env[1], sp.aliased(), sp.searchwindowsize, sp.positions())
                for ch, (out, viol, ns) in dfs(run):
                    acc.execs += 1
                    acc.transitions += 1
                    acc.outcomes[call[0] + ':' + out] += 1
                    if viol:
                        hist = path_to(parent, st) + [(call, ch.choices())]
                        acc.violation(vkey(call, viol[0]), viol[1],
                                      {'task': task, 'history': hist})
                        continue
                    if len(ns[0]) > task['L'] or len(ns[2]) > task['L']:
                        hist = path_to(parent, st) + [(call, ch.choices())]
                        acc.violation(vkey(call, 'pending-exceeds-received'),
                                      'pending text %r is longer than everything the child ever wrote (%d)'
                                      % (ns[0], task['L']), {'task': task, 'history': hist})
                        continue
                    if ns not in parent:
                        if len(parent) >= cap:
                            if not acc.caps:
                                acc.caps.append('state cap %d hit in task %r' % (cap, task))
                            continue
                        parent[ns] = (st, call, ch.choices())
                        nxt.append(ns)
        # live-object conformance of every new state
        for ns in nxt:
            hist = path_to(parent, ns)
            sp, env, obs, viol = w.run_history(hist)
            live_checked += 1
            b, f = sp.snap()
            if viol or (b, f, env[2], env[0], env[1], sp.aliased(), sp.searchwindowsize, sp.positions()) != ns:
                acc.violation('snapshot-vs-live-divergence',
                              'state %r reached by restore differs from live run %r'
                              % (ns, (b, f, env[2], env[0], env[1], sp.aliased(), sp.searchwindowsize, sp.positions())),
                              {'task': task, 'history': hist, 'expect_state': list(ns)})
        frontier = nxt
        depth += 1
    acc.states = len(parent)
    acc.nontrivial = flags.pop('_nontrivial', 0)
    acc.flags.update(flags)
    acc.extra['max_history_depth'] = depth
    acc.extra['live_histories_replayed'] = live_checked
    acc.execs += live_checked
    # a few concrete sample histories
    keys = list(parent.keys())
    for st in keys[len(keys) // 2: len(keys) // 2 + 1] + keys[-1:]:
        acc.sample({'task': task, 'history': path_to(parent, st), 'state': st})
    return acc


def path_to(parent, st):
    hist = []
    while parent[st] is not None:
        p, call, choices = parent[st]
        hist.append((call, choices))
        st = p
    hist.reverse()
    return hist


def replay(spec, world_cls=None):
    from mc.explore import unjson
    spec = unjson(spec)
    install_clock()
    w = (world_cls or World)(spec['task'])
    hist = [(canon_call(c), ch) for c, ch in spec['history']]
    sp, env, obs, viol = w.run_history(hist)
    out = {'observations': obs, 'violation': None}
    if viol:
        out['violation'] = {'key': vkey(hist[len(obs) - 1][0], viol[0]), 'msg': viol[1]}
    elif len(sp._before.getvalue()) > spec['task']['L'] or len(env[2]) > spec['task']['L']:
        out['violation'] = {'key': vkey(hist[-1][0], 'pending-exceeds-received'),
                            'msg': 'pending %r' % (sp._before.getvalue(),)}
    elif 'expect_state' in spec:
        b, f = sp.snap()
        now = [b, f, env[2], env[0], env[1], sp.aliased(), sp.searchwindowsize, list(sp.positions())]
        if now != list(spec['expect_state']):
            out['violation'] = {'key': 'snapshot-vs-live-divergence', 'msg': repr(now)}
    return out
