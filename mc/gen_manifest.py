"""Regenerates /verif/MANIFEST.json from the table below (keeps it schema-valid)."""
import json
import os
import subprocess

ROOT = os.path.dirname(os.path.dirname(os.path.abspath(__file__)))

BASE_CMD = ("cd /repo && /venv/bin/python -m pytest -ra -q -p no:cacheprovider --timeout=900 "
            "--continue-on-collection-errors")

# id -> (engine, technique, level text, level note, design ref)
CHECKS = {}


def check(pid, engine, technique, text, note, ref):
    CHECKS[pid] = dict(engine=engine, technique=technique, text=text, note=note, ref=ref)


E3 = 'E3 scripted-read seam (mc/script_spawn.py) + E1 explorer'
E2 = 'E2 controlled environment (mc/env.py) + E1 explorer'

check('C01', E3,
      'explicit-state BFS to fix-point over the real SpawnBase/Expecter with a pending-text ledger oracle; nested exhaustive DFS over environment answers',
      'Every reachable state of the real buffering code for all streams up to length L over a small alphabet, all splittings, all call histories from a 20-40 call menu, is visited and the ledger checked on every transition; each state is re-reached on one live object.',
      'bounded alphabet / stream length / chunk size <= 2; scripted read_nonblocking in place of a transport; snapshot = (_before,_buffer) values, validated by live replay of every state',
      'DESIGN.md 3 C01')

check('C02', E3,
      'complete enumeration (nested loops, no sampling) of pattern lists x streams x all splittings x windows x preceding-call variants on the real expect/expect_exact; independent re/str.find oracle at every successful return',
      'Every ordered pattern list up to length 3 from collision-rich pools with EOF/TIMEOUT at every position, every stream over {a,b} up to the bound, every splitting, is executed; genuineness, leftmost and lowest-index are judged against independent searches of the searchable text.',
      'pattern pools (incl. the empty exact string) / alphabet / length bounds; the window may change from call to call and an instance-level window may be overridden per call; scripted read_nonblocking',
      'DESIGN.md 3 C02')
check('C03', E3,
      'explicit-state BFS to fix-point of the product (real incremental search) x (naive full re-search reference), nested DFS over environment answers, per-call changing W and pattern list',
      'For every reachable buffer state (incl. trimmed search buffers left by earlier calls), every call and every answer sequence the implementation must return at the same read with the same index/before/after/buffer as the naive procedure.',
      'bounded alphabet / stream length; naive reference in mc/refs.py (re.search / str.find on the last W characters)',
      'DESIGN.md 3 C03')
check('C04', E3 + ' (part A); ' + E2 + ' (part B)',
      'complete table enumeration of marker placement x entry point x pending/received text x ending x window x mode, with follow-up calls; part B enumerates transports x peer endings under the controlled environment',
      'Every cell of the finite table is executed on the real code and judged (exact exception class, index, before/after/match fields, pending occurrence wins, EOF sticky, TIMEOUT consumes nothing).',
      'table dimensions as listed in evidence bounds; part B also: a dead child whose terminal stays silent and open, unicode reads smaller than a character, messages built on closed objects',
      'DESIGN.md 3 C04')
check('C20', E3,
      'complete table enumeration of pattern x all 32 flag subsets x form x mode x ignorecase x stream x splitting with a differential oracle against the native form; invalid objects at every list position',
      'Every accepted form of every pattern in the grammar is run on scripted streams and must give the same (index, before, after, span, groups) as the native form; every invalid object must raise TypeError with zero reads.',
      'pattern grammar and stream pool are finite and listed; histories on one object (ignorecase toggled between uses, an invalid call made twice); other regex features not covered',
      'DESIGN.md 3 C20')

check('C13', 'E1 table enumeration; real scratch file trees; real probe children for part (c)',
      'complete enumeration of three finite tables: quoted argument lists (split_command_line round trip), PATH layouts (which), and the cross product of spawn settings observed by a real probe child',
      'Every argument list / PATH layout / setting combination inside the stated bounds is executed against the real code and compared with an answer known by construction.',
      'alphabet of 7 characters, arguments of 1..3 characters; which() also over all ordered pairs of two-directory layouts under one unchanged PATH string; part (c) uses real processes (a quoted program word alone, every ordered pair of launch settings in one process, env without PATH, caller preexec_fn): no answer within a generous liveness bound is inconclusive (retried), a refused launch is a verdict',
      'DESIGN.md 3 C13')
check('C18', 'E1 explicit-state BFS over the real ANSI object',
      'explicit-state BFS over (grid, cursor, saved cursor, scroll region, FSM state, parameter stack, decoder state) with a complete token alphabet; exhaustive cut-point enumeration for chunk independence',
      'All reachable terminal states on tiny screens (fix-point) and to a depth bound on larger ones satisfy totality/shape/cursor/no-residue; every token pair (and BFS-tree path) is re-fed under every cut set as str, latin-1 bytes and utf-8 bytes.',
      'token alphabet finite (every known final x parameter classes, unknown finals, truncated prefixes); screens <= 3x4; byte input also malformed for the encoding and in shift_jis/gbk/utf-16, pieces fed through write() and process_list(); two live terminals fed alternately; no random testing on large screens',
      'DESIGN.md 3 C18')
check('C19', 'E1 explicit-state BFS over the real screen object x reference grid',
      'explicit-state BFS of the product (real screen, reference grid) with whole-state comparison (frame condition) after every operation and all read accessors compared in every new state',
      'All operation sequences to the fix-point on 1x1..2x2 and to a depth bound (with state deduplication) on 2x3..4x5, arguments from {below, 1, interior, max, above}, swapped corners, str/bytes.',
      'reference grid written from the docstrings; doc-silent behaviours are pinned and listed in the evidence assumptions; row sharing is part of the state, all accessors are read before every operation, utf-8 screens with multi-byte bytes characters, an undecodable character under strict errors must be rejected without changing anything',
      'DESIGN.md 3 C19')

check('C06', E2,
      'stateless exhaustive schedule exploration (DFS over every placement of the peer\'s actions between the reader\'s intercepted system calls; no preemption bound for scripts <= 4 actions) on real pty/pipe/socket objects with a simulated process table',
      'For every transport and configuration, every interleaving of write/write/hang-up/exit with the reader\'s poll/read/waitpid/timed-wait/queue/reader-thread steps is executed; the returned bytes must equal the written bytes, EOF only after all of them, chunk <= size, socket timeout restored.',
      'scheduling granularity = intercepted calls; pty data is served from a harness-side buffer (raw mode) because kernel pty delivery is asynchronous and not deterministic; process table simulated (validated against the kernel); readers: read_nonblocking loop, polling loop (timeout 0), expect(EOF), readlines(); unicode mode with reads smaller than a character; short reads; large outputs only with deviation bound 1',
      'DESIGN.md 3 C06')

check('C05', E2,
      'exhaustive enumeration on a virtual clock: entry point x T x transport x peer scenario with its events at every point of a time grid around the deadline x every EINTR answer sequence of select/poll (nested DFS); elapsed virtual time judged exactly',
      'Every combination of entry point, timeout value, transport and peer behaviour (silent, burst, trickle, match, hang-up while alive, exit, echo-off) with events placed at 0-,0+,T/2,T-e,T+e,3T is executed; the call must end by T+0.25, never TIMEOUT before T while connected, never TIMEOUT with None, match what is pending/readable with T=0.',
      'virtual time (no real waiting); EINTR modelled as an environment answer; process table simulated; PopenSpawn reader thread eager',
      'DESIGN.md 3 C05')

check('C07', E2,
      'complete enumeration of byte streams x every set of <= 3 cut points x encodings x error policies x maxread x transports, each piece delivered at its own virtual instant; oracle = codecs.decode of the whole stream',
      'Every splitting (up to 3 cuts at every byte offset) of every stream in the pool is delivered through every real transport class and must reach the caller and logfile_read as the whole-stream decoding, with the right string type.',
      'stream pool finite (1-4 byte UTF-8 sequences, UTF-16 with BOM and surrogate pair, latin-1, invalid bytes under replace/ignore); blocking and awaited paths; a call aborted by KeyboardInterrupt out of the blocked wait after every piece and retried; a second object while a decoder holds a partial character',
      'DESIGN.md 3 C07')
check('C08', E2,
      'complete enumeration of send-family call sequences (length <= 3) x payload pool x mode x transport with a byte-exact raw-mode peer; every control-character name',
      'Every sequence is executed on the real transport; the peer must receive exactly the incremental encoding of the arguments in call order (+ one line separator per sendline, one byte per control call); send returns the bytes written.',
      'raw-mode pty slave / pipe / socketpair peer owned by the harness; also: linesep assigned between sendlines, short OS writes as an environment answer (deviation bound 2), a payload-length sweep over chunk-size boundaries; payloads above the kernel buffer drained by a free-running thread (one verdict, byte counts kept apart as timing detail)',
      'DESIGN.md 3 C08')
check('C11', E2,
      'complete enumeration of read/send operation sequences (length <= 4) x the 7 log subsets x mode x transport with recording log objects (every write/flush, type, global order)',
      'Every sequence is executed; logfile_read must equal the text delivered (incremental decoding of what was read, characters cut by read boundaries), logfile_send the coerced arguments incl. control characters, logfile their merge in operation order, every write flushed, string type = API type.',
      'each read operation consumes exactly the chunk delivered for it (unique token per chunk); awaited reads in the menu; interact() logging driven through the C15 harness, also with a child that takes one byte per write',
      'DESIGN.md 3 C11')

check('C09', E2 + ' + ProcSim (mc/conform_procsim.py)',
      'exhaustive enumeration of fate x observation sequences (all 630 fates x sequences <= 2; 12 representative fates x sequences <= 3) with a DFS over every placement of the death among the intercepted system calls; simulated process table bound to the real kernel by replaying every kill/waitpid sequence <= 4 on real /bin/sh children',
      'After every operation: once the object claims/observes the death, exitstatus/signalstatus/status/terminated must equal the truth held by the process table and never change; wait()/run()/PopenSpawn.wait return it; all real exit codes and signals checked once through real children.',
      'ProcSim status words and signal semantics validated against the kernel (counts in evidence: env_traces_validated_against_real_kernel); a read that hit EOF counts as an observation when it refreshed the status (documented way: expect(EOF) then isalive/close)',
      'DESIGN.md 3 C09')
check('C10', E2 + ' + ProcSim',
      'exhaustive enumeration of lifecycle operation sequences (length <= 4) x child dispositions x transports with nested DFS over signal-latency and mid-sequence-exit placements; invariants after every operation; decoy file on the released descriptor number',
      'Every sequence over 14 pty operations (7 for fd/socket) from every disposition is executed on real descriptors; liveness truthfulness, reaping after close/terminate(force), idempotent close, descriptor release, no stale child_fd, I/O after close fails without touching the new owner of the descriptor number, no foreign exception classes.',
      'process table simulated (validated, see C09); fatal signals act immediately, after 0.05 s or after 0.095 s (< delayafterterminate); grace periods set to zero; kill() answering ESRCH for the just-died child; a log file closed before the spawn; wait() on a child that never exits is skipped as documented blocking',
      'DESIGN.md 3 C10')

check('C12', E2,
      'complete enumeration of scripted reactive dialogues (<= 4 steps + exit) x 9 event tables x mode x withexitstatus on the virtual clock, real pexpect.run() over the _spawnpty seam',
      'Every dialogue (emit with 0/1/2 occurrences, occurrence split across chunks, wait for an input line, pause beyond the timeout, exit code) is played by a harness-owned peer that logs what it received; the returned output must be exactly the prefix of what the child wrote up to the stop point, each occurrence answered once in stream order with list priority, exit status true.',
      'event patterns are atomic tokens; with a TIMEOUT key only output and pattern responses are judged; also: a child that detaches from its terminal and exits later, searchwindowsize through run() kwargs, timeout exactly 0, a duplicated pattern in an event list, a run after one whose output ended inside a character; closing the master sends SIGHUP to the simulated child; process table simulated',
      'DESIGN.md 3 C12')

check('C16', E2 + ' + scripted REPL model bound to real bash',
      'exhaustive enumeration of command sequences (length <= 3) with a deviation-bounded (<= 2) DFS over chunk-cut placements in the REPL output (incl. inside the prompt string); conformance replay of every sequence <= 2 on real bash',
      'The real REPLWrapper drives a harness spawn whose peer is a line-oriented REPL model (prompt, continuation prompt, SIGINT cancels); each run_command must return exactly that command\'s modelled output, ValueError for incomplete input, later commands still attributed correctly.',
      'REPL model bound to reality by real-bash and real-python replays (TIMEOUT = inconclusive); cut deviation bound 2 (middle of the output, output/prompt boundary, middle / first / last character of the prompt); blocking and awaited forms; a wrapper on an existing spawn whose terminal still echoes (echo produced by the model at write time)',
      'DESIGN.md 3 C16')
check('C17', E2 + ' + fake ssh server state machine',
      'complete enumeration of server dialogues (<= 4 events over 12 event kinds) x shell flavours x login option combinations x mode, on the virtual clock, with a transcript oracle',
      'The real pxssh.login()/prompt() talk to a deterministic server that records what it printed and received in order: password at most once and only right after a password/passphrase prompt, yes only after the host-key question, True only in shell state with the unique prompt set (then prompt() delimits two commands exactly), otherwise a pexpect exception within the configured timeouts.',
      'server is a model (no echo; one of sh/csh/zsh prompt syntaxes); "password prompt" = output matching the password regex; timeouts virtual',
      'DESIGN.md 3 C17')

check('C15', E2 + ' with two harness-owned ptys',
      'enumeration of keystroke streams x splittings x merge orders with child output chunks x configurations, with a deviation-bounded DFS over the placement of the peer actions among interact()\'s system calls',
      'interact() runs between an inner pty (child) and an outer pty (the user\'s terminal) both held by the harness: the screen must equal pending buffer + child output (through output_filter), the child must receive the keystrokes (through input_filter) up to but excluding the first escape character, interact returns on escape and on child exit, termios restored.',
      'keystrokes / child output served from harness-side buffers (pty delivery is asynchronous); schedule deviation bound 1 (quick) / 2 (thorough); keystroke alphabet of 5 bytes, <= 4 keys; filters that empty, lengthen, shorten a read or produce the escape byte; a child that takes one byte per write; bursts of exactly the read size; a second interact() after the program changed the terminal settings',
      'DESIGN.md 3 C15')

check('C14', E2 + ' + controlled real asyncio loop (mc/aio.py)',
      'deviation-bounded exhaustive schedule exploration of call histories mixing awaited and blocking calls on one object: every placement of each chunk and of EOF among the loop\'s select() calls, the transport\'s reads and the blocking path\'s system calls; reference = naive full re-search (C03) on the chunks as the object received them',
      'The real SelectorEventLoop and _UnixReadPipeTransport run on the real pty descriptor with a controlled selector and a virtual loop clock; every awaited/blocking call must give the index/exception, before, after, match, buffer that the reference gives for the text it had received, TIMEOUT not before T and by T+0.25, up to the first EOF.',
      'deviation bound 1 (quick; 2 for the search-window histories) / 2 (thorough); streams over {a,b,e-acute} up to 4 characters with byte-level cuts; histories of <= 3 calls from a fixed menu incl. polls, zero-width patterns and search windows (under a window the reference is taken over every gathering of consecutive chunks)',
      'DESIGN.md 3 C14')

NOT_BUILT = {}


def main():
    props = [json.loads(l)['id'] for l in open(os.path.join(ROOT, 'properties.jsonl'))]
    checks = []
    na = []
    for pid in props:
        if pid in CHECKS and os.path.exists(os.path.join(ROOT, 'mc', MODFILE[pid])):
            c = CHECKS[pid]
            checks.append({
                'property_id': pid,
                'quick_cmd': './check %s --tier quick' % pid,
                'thorough_cmd': './check %s --tier thorough' % pid,
                'evidence_file': '/verif/evidence/%s.json' % pid,
                'replay_cmd_template': './check %s --replay {path}' % pid,
                'engine': c['engine'],
                'level_claimed': {'category': 'model_checking', 'text': c['text'],
                                  'design_ref': c['ref']},
                'level_note': c['note'],
                'technique': c['technique'],
            })
        else:
            na.append({'property_id': pid,
                       'reason': NOT_BUILT.get(pid, 'check not built yet in this session (planned, see DESIGN.md section 3); not claimed until it runs')})
    try:
        commits = subprocess.check_output(
            ['git', '-C', '/repo', 'log', '--format=%h %s', '--grep=^hook:'], text=True).split('\n')
        commits = [c.split()[0] for c in commits if c.strip()]
    except Exception:
        commits = []
    man = {
        'version': 1,
        'setup_cmd': '/venv/bin/python -m mc.selftest',
        'hooks': {
            'guard': 'PEXPECT_VERIF',
            'enable': 'none needed: checks import /repo working tree (editable install, /repo first on sys.path) and interpose os/time/select names in the pexpect module namespaces from the harness; no source hooks',
            'baseline_off_cmd': BASE_CMD,
            'source_commits': commits,
            'add_only': True,
        },
        'engines': [
            {'name': 'E1', 'path': 'mc/explore.py', 'serves_properties': sorted(CHECKS),
             'kind_free_text': 'hand-written stateless deviation-bounded DFS + explicit-state BFS over the real code'},
            {'name': 'E2', 'path': 'mc/env.py', 'serves_properties': ['C04', 'C05', 'C06', 'C07', 'C08', 'C09', 'C10', 'C11', 'C12', 'C14', 'C15', 'C16', 'C17'],
             'kind_free_text': 'controlled environment: real pty/pipe/socket peers held by the harness, os/time/select names interposed in the pexpect and ptyprocess namespaces, virtual clock, simulated process table, baton reader thread'},
            {'name': 'E3', 'path': 'mc/script_spawn.py', 'serves_properties': ['C01', 'C02', 'C03', 'C04', 'C20'],
             'kind_free_text': 'SpawnBase subclass whose read_nonblocking is answered by the explorer'},
        ],
        'checks': checks,
        'not_applicable': na,
        'notes': 'All verdicts come from exhaustive enumeration of bounded spaces of executions of the real pexpect code; see DESIGN.md.',
    }
    with open(os.path.join(ROOT, 'MANIFEST.json'), 'w') as f:
        json.dump(man, f, indent=1)
    print('claimed', [c['property_id'] for c in checks])


MODFILE = {
    'C01': 'c01_conservation.py', 'C02': 'c02_match.py', 'C03': 'c03_naive.py',
    'C04': 'c04_markers.py', 'C05': 'c05_deadline.py', 'C06': 'c06_transport.py',
    'C07': 'c07_decode.py', 'C08': 'c08_send.py', 'C09': 'c09_status.py',
    'C10': 'c10_lifecycle.py', 'C11': 'c11_logging.py', 'C12': 'c12_run.py',
    'C13': 'c13_launch.py', 'C14': 'c14_async.py', 'C15': 'c15_interact.py',
    'C16': 'c16_repl.py', 'C17': 'c17_pxssh.py', 'C18': 'c18_ansi.py',
    'C19': 'c19_screen.py', 'C20': 'c20_forms.py',
}

if __name__ == '__main__':
    main()
