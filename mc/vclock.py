"""Virtual clock shared by every harness.  Installed as the name `time` inside
pexpect's (and ptyprocess') module namespaces; the real `time` module is never
patched.  time() advances by a fixed tick so poll-the-clock loops terminate."""
import time as _real_time


class VClock(object):
    def __init__(self, tick=1e-6):
        self.now = 1000.0
        self.tick = tick
        self.sleep_hook = None     # called with (duration) -> may run peer actions
        self.sleeps = 0
        self.virtual = True        # False: pass through to the real clock (real child processes)

    def reset(self, tick=None):
        self.now = 1000.0
        if tick is not None:
            self.tick = tick
        self.sleep_hook = None
        self.sleeps = 0

    # --- the part of the `time` module API the library uses ---
    def time(self):
        if not self.virtual:
            return _real_time.time()
        self.now += self.tick
        return self.now

    def monotonic(self):
        return self.time()

    def sleep(self, x):
        if not self.virtual:
            return _real_time.sleep(x)
        self.sleeps += 1
        if self.sleep_hook is not None:
            self.sleep_hook(x)
        else:
            self.now += x

    def __getattr__(self, name):
        return getattr(_real_time, name)


CLOCK = VClock()
