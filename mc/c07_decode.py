"""C07 -- unicode mode decodes the stream as a whole, however reads split it.

Complete enumeration: byte streams x every set of <= k cut points over all byte
offsets x encodings x error policies x maxread x transports.  Each piece is
written by the peer at its own virtual instant, so the library reads it as one
chunk (maxread may split it further).  Oracle: text delivered to the caller
(expect in the middle + expect(EOF)) and to logfile_read equals
codecs.decode(whole stream)."""
import codecs
import itertools

import pexpect
from pexpect import EOF, TIMEOUT

from mc import env as E
from mc import transports as TR
from mc.explore import Chooser, Cut
from mc.runner import Acc

PROPERTY = 'C07'
RULE = ('case = (stream, cut set, encoding, error policy, maxread, transport); every case executed once; non-trivial = '
        'at least one cut (or a maxread boundary) falls inside a multi-byte character; distinct by construction')
ASSUMPTIONS = ['streams of <= 12 bytes that do not end inside a character; <= 2 cuts (quick) / <= 3 cuts (thorough)',
               'asyncio path: awaited expect calls on the real event loop with a controlled selector, on a pty and on a socket descriptor']
REQUIRED_FLAGS = {'cut_inside_char': 1, 'bytes_mode': 1, 'invalid_bytes_replaced': 1, 'call_aborted_then_retried': 1,
                  'aborted_while_decoder_holds_partial_char': 1}


class Rec(object):
    def __init__(self):
        self.items = []

    def write(self, s):
        self.items.append(s)

    def flush(self):
        pass


STREAMS = [
    ('utf-8', 'a\xe9€\U0001d11eb'.encode('utf-8'), ('strict', 'replace', 'ignore')),
    ('utf-8', '\xe9\xe9€'.encode('utf-8'), ('strict',)),
    ('utf-8', '\U0001d11e\U0001d11e'.encode('utf-8'), ('strict', 'replace')),
    ('utf-8', b'a\xffb\xc3(c\xe2\x82d', ('replace', 'ignore')),
    ('utf-16', 'a\U0001d11e\xe9'.encode('utf-16'), ('strict', 'replace')),
    ('utf-16', '€b'.encode('utf-16'), ('strict',)),
    ('latin-1', b'a\xe9\xffb', ('strict',)),
    (None, b'a\xc3\xa9\xff\x00b', ('strict',)),
    ('utf-8', 'x€'.encode('utf-8') * 2, ('strict',)),
    # the same codecs under other legal spellings of their names, and one more non-ASCII-transparent codec
    ('utf_16', 'a\U0001d11eb'.encode('utf-16'), ('strict',)),
    ('UTF16', 'ab\xe9'.encode('utf-16'), ('strict',)),
    ('u16', 'ab'.encode('utf-16'), ('strict',)),
    ('utf_32', 'a\xe9'.encode('utf-32'), ('strict',)),
    ('UTF8', 'a\xe9b'.encode('utf-8'), ('strict',)),
    ('cp500', 'ab1'.encode('cp500'), ('strict',)),
]


def bounds(tier):
    return dict(streams=[(e, repr(b)) for e, b, _ in STREAMS], max_cuts=2 if tier == 'quick' else 3,
                maxread=[1, 2000] if tier == 'quick' else [1, 3, 2000], transports=TR.NAMES)


def tasks(tier):
    out = []
    for tr in TR.NAMES:
        for i in range(len(STREAMS)):
            out.append(dict(transport=tr, stream=i, tier=tier))
    # the asyncio path (real event loop + real read-pipe transport, see mc/aio.py) on a pty and on a socket fd
    for tr in ('pty-select', 'fd-select'):
        for i in range(len(STREAMS)):
            out.append(dict(transport=tr, stream=i, tier=tier, aio=True))
    return out


def run_case(task, enc, raw, errors, cuts, maxread, intr=None, pause=None):
    env = E.Env(Chooser(()))
    link = None
    obs = {}
    viol = None
    loop = None
    try:
        if task.get('aio'):
            from mc import aio
            aio.install()
        kw = dict(timeout=5, maxread=maxread, encoding=enc, codec_errors=errors)
        link = TR.Link(env, task['transport'], **kw)
        sp = link.sp
        sp.delayafterread = None if task['transport'] != 'popen' else 0.001
        log = Rec()
        sp.logfile_read = log
        if task['transport'] == 'popen':
            env.eager_reader = True
        pieces = []
        prev = 0
        for c in list(cuts) + [len(raw)]:
            pieces.append(raw[prev:c])
            prev = c
        t = 0.01

        def interrupt():
            # what a signal handler that raises does to a call blocked in select()/poll(): e.g. the user's Ctrl-C
            raise KeyboardInterrupt()
        for i, p in enumerate(pieces):
            if pause is not None and i == pause + 1:
                # the peer pauses longer than the reader's timeout after piece `pause`: the waiting call ends in
                # TIMEOUT (having consumed nothing) and the program calls again
                t += 7.0
            link.w(p, at=t)
            if intr == i:
                env.add('fn', interrupt, at=t + 0.005)
            t += 0.01
        link.exit(0, at=t)
        want = raw if enc is None else codecs.decode(raw, enc, errors)
        empty = want[:0]
        # an expect in the middle: the second character of the expected text
        mid = want[1:2] if len(want) > 2 else None
        got = empty
        loop = None
        if task.get('aio'):
            import asyncio
            from mc import aio
            loop = aio.new_loop()
            asyncio.set_event_loop(loop)
        def retrying(fn):
            # a call aborted by an exception that is neither EOF nor TIMEOUT consumed nothing: the program tries again
            for attempt in range(3):
                try:
                    return fn()
                except KeyboardInterrupt:
                    obs['interrupted'] = obs.get('interrupted', 0) + 1
                except TIMEOUT:
                    if pause is None:
                        raise
                    obs['timed_out'] = obs.get('timed_out', 0) + 1
            raise RuntimeError('interrupted three times')
        try:
            if mid is not None and mid not in (b'(', '(') and mid.strip():
                if loop is not None:
                    loop.run_until_complete(sp.expect_exact(mid, async_=True))
                else:
                    retrying(lambda: sp.expect_exact(mid))
                got += sp.before + sp.after
            if loop is not None:
                loop.run_until_complete(sp.expect(EOF, async_=True))
            else:
                retrying(lambda: sp.expect(EOF))
            got += sp.before
        except TIMEOUT as e:
            viol = ('timeout', 'TIMEOUT before EOF, before=%r' % (sp.before,))
        logged = empty
        types_ok = True
        for it in log.items:
            if type(it) is not type(want):
                types_ok = False
            else:
                logged += it
        obs.update(got=got, logged=logged, want=want)
        if viol is None:
            if type(got) is not type(want):
                viol = ('type', 'delivered %r (%s) in %s mode' % (got, type(got).__name__, enc))
            elif got != want:
                viol = ('text', 'delivered %r, whole-stream decoding is %r' % (got, want))
            elif not types_ok:
                viol = ('log-type', 'logfile_read received %r' % ([type(i).__name__ for i in log.items],))
            elif logged != want:
                viol = ('log', 'logfile_read has %r, whole-stream decoding is %r' % (logged, want))
    except E.Hang as h:
        viol = ('hang', str(h))
    except Cut as c:
        viol = ('horizon', str(c))
    except E.HarnessError:
        raise
    except Exception as e:
        viol = ('exception', 'raised %r' % (e,))
    finally:
        if task.get('aio'):
            try:
                import asyncio
                from mc import aio
                tr_ = getattr(link.sp, 'async_pw_transport', None) if link is not None else None
                if tr_:
                    tr_[1].abort()
                if loop is not None:
                    aio.close_loop(loop)
                asyncio.set_event_loop(None)
            except Exception:
                pass
        if link is not None:
            link.finish()
        else:
            env.finish()
    return obs, viol


def char_boundaries(raw, enc, errors):
    """Byte offsets that lie strictly inside a multi-byte character."""
    if enc is None or enc == 'latin-1':
        return set()
    inside = set()
    dec = codecs.getincrementaldecoder(enc)(errors)
    start = 0
    for i in range(len(raw)):
        out = dec.decode(raw[i:i + 1])
        if dec.getstate()[0]:       # bytes buffered: offset i+1 is inside a character
            inside.add(i + 1)
    return inside


def cases(task):
    enc, raw, errs = STREAMS[task['stream']]
    q = task['tier'] == 'quick'
    maxcuts = 2 if q else 3
    for errors in errs:
        for maxread in ((1, 2000) if q else (1, 3, 2000)):
            for k in range(0, maxcuts + 1):
                for cuts in itertools.combinations(range(1, len(raw)), k):
                    yield enc, raw, errors, cuts, maxread, None, None
                    if k and not task.get('aio') and task['transport'] != 'popen' and maxread != 1:
                        # the call that is waiting after piece i is aborted by an exception (not EOF/TIMEOUT), then retried
                        for i in range(k):
                            yield enc, raw, errors, cuts, maxread, i, None
                        # ... or ends in TIMEOUT because the peer pauses after piece i, then the program calls again
                        for i in range(k):
                            yield enc, raw, errors, cuts, maxread, None, i


def run_task(task):
    acc = Acc()
    for enc, raw, errors, cuts, maxread, intr, pause in cases(task):
        obs, viol = run_case(task, enc, raw, errors, cuts, maxread, intr, pause)
        if obs.get('timed_out'):
            acc.flags['call_timed_out_then_called_again'] += 1
            if cuts[pause] in char_boundaries(raw, enc, errors):
                acc.flags['timed_out_while_decoder_holds_partial_char'] += 1
        if obs.get('interrupted'):
            acc.flags['call_aborted_then_retried'] += 1
            if cuts[intr] in char_boundaries(raw, enc, errors):
                acc.flags['aborted_while_decoder_holds_partial_char'] += 1
        acc.execs += 1
        acc.transitions += 1 + len(cuts)
        inside = char_boundaries(raw, enc, errors)
        if any(c in inside for c in cuts) or (maxread < 4 and inside):
            acc.nontrivial += 1
            acc.flags['cut_inside_char'] += 1
        if enc is None:
            acc.flags['bytes_mode'] += 1
        if errors != 'strict' and b'\xff' in raw:
            acc.flags['invalid_bytes_replaced'] += 1
        acc.outcomes['%s/%s/%s' % (enc, errors, 'viol' if viol else 'ok')] += 1
        if viol:
            key = '%s%s:%s:%s:%s' % (task['transport'], '+asyncio' if task.get('aio') else '', enc, errors, viol[0])
            if intr is not None:
                key += ':after-aborted-call'
            if pause is not None:
                key += ':after-timed-out-call'
            acc.violation(key, 'stream %r cuts %r maxread %d%s%s: %s' % (raw, cuts, maxread, '' if intr is None else ', call aborted by KeyboardInterrupt after piece %d and retried' % intr,
                                                                        '' if pause is None else ', peer pauses beyond the timeout after piece %d, call repeated' % pause, viol[1]),
                          dict(task=task, errors=errors, cuts=list(cuts), maxread=maxread, intr=intr, pause=pause))
    acc.states += 1
    acc.sample(dict(task=task, stream=repr(STREAMS[task['stream']][1]), cuts=[1, 4], errors='strict', maxread=2000))
    return acc


def replay(spec):
    from mc.explore import unjson
    spec = unjson(spec)
    task = spec['task']
    enc, raw, errs = STREAMS[task['stream']]
    obs, viol = run_case(task, enc, raw, spec['errors'], tuple(spec['cuts']), spec['maxread'], spec.get('intr'), spec.get('pause'))
    out = {'observation': {k: repr(v) for k, v in obs.items()}, 'violation': None}
    if viol:
        out['violation'] = {'key': '%s%s:%s:%s:%s%s' % (task['transport'], '+asyncio' if task.get('aio') else '', enc, spec['errors'], viol[0],
                                                         (':after-aborted-call' if spec.get('intr') is not None else '')
                                                         + (':after-timed-out-call' if spec.get('pause') is not None else '')), 'msg': viol[1]}
    return out
