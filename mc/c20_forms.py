"""C20 -- a pattern means the same in every accepted form; other objects are rejected.

Complete table on the ScriptSpawn seam: pattern x compile-flag subset x mode x
ignorecase x entry point x stream x splitting x form; differential oracle (every
form against the native form), plus rejection of invalid objects at every list
position with zero reads and the pending text untouched."""
import itertools
import re

from pexpect import EOF, TIMEOUT

from mc import refs
from mc.runner import Acc
from mc.script_spawn import ScriptSpawn, install_clock
from mc.vclock import CLOCK

PROPERTY = 'C20'
RULE = ('complete table; case = (pattern, flag subset, mode, ignorecase, stream, splitting, form); each form is run '
        'on a fresh scripted object and compared with the native form; non-trivial = the native form matched '
        'or the flags change its outcome w.r.t. no flags; invalid-object cases are all non-trivial')
ASSUMPTIONS = ['pattern grammar and stream pool as listed in bounds']
REQUIRED_FLAGS = {'same_source_different_flags_cross_type': 1, 'flag_sensitive': 1, 'other_type_compiled': 1, 'ascii_text_in_bytes_mode': 1,
                  'rejected': 1, 'dot_newline': 1, 'ignorecase_effect': 1}

PATTERNS = ['a', 'ab', '.', 'a.b', 'a|b', 'a*b', '[ab]+', '^b', 'b$', '(a)(b)', 'A', 'a b', 'x\\w+', 'a # c\n b']
FLAGS = [re.IGNORECASE, re.MULTILINE, re.VERBOSE, re.DOTALL, re.ASCII]
STREAMS = ['ab', 'a\nb', 'xAB\n', 'b\nab', 'aXb a b', 'Ab\nB', 'xéb']
EXACT = ['a', 'ab', 'A', 'a\nb', '.', 'a b']


def bounds(tier):
    return dict(patterns=PATTERNS, flag_subsets=32, streams=STREAMS, exact=EXACT,
                splittings=['whole', 'char-by-char', 'cut-in-the-middle'],
                invalid=['int', 'float', 'None-in-list', 'nested list', 'wrong string type', 'object()'])


PATTERNS_T = ['a+?b', '(?i)aB', 'a{2}', '[^a]b', '(a|b)\\1', 'b\\b', '\\Aa', 'b\\Z', '(?:a)(?P<n>b)', 'a.?b', '\\d?x', '[A-Z]+']
STREAMS_T = ['aab', 'AB\nab', 'bb a', 'xa\r\nb', 'ab' * 3, 'B']


def tasks(tier):
    t = []
    for mode in ('bytes', 'utf-8'):
        for ic in (False, True):
            if tier == 'quick':
                t.append(dict(kind='forms', mode=mode, ignorecase=ic))
            else:
                for part in range(8):
                    t.append(dict(kind='forms', mode=mode, ignorecase=ic, thorough=True, part=part, parts=8))
        t.append(dict(kind='invalid', mode=mode))
        t.append(dict(kind='history', mode=mode))
    return t


def flagsets():
    for r in range(len(FLAGS) + 1):
        for c in itertools.combinations(FLAGS, r):
            f = 0
            for x in c:
                f |= x
            yield f


def run_stream(task, call, stream, cuts, ic=False, pending=None):
    """call(sp) performs the expect-family call.  Returns observation tuple."""
    CLOCK.reset()
    enc = None if task['mode'] == 'bytes' else task['mode']
    raw = stream.encode('utf-8')
    chunks = refs.split_at(raw, cuts)
    pos = [0]
    reads = [0]

    def answer(size, timeout):
        reads[0] += 1
        if pos[0] < len(chunks):
            pos[0] += 1
            return chunks[pos[0] - 1]
        return TIMEOUT

    sp = ScriptSpawn(answer, timeout=5, encoding=enc)
    sp.ignorecase = ic
    if pending is not None:
        sp.buffer = pending
    try:
        i = call(sp)
    except TIMEOUT:
        return ('TIMEOUT', sp.before, None, None, None, reads[0]), sp
    except TypeError as e:
        return ('TypeError', sp.before, None, None, None, reads[0]), sp
    except Exception as e:
        return ('exc:%s' % type(e).__name__, sp.before, None, None, None, reads[0]), sp
    m = sp.match
    if hasattr(m, 'span'):
        # span relative to the end of the searched text, groups
        return (i, sp.before, sp.after, (len(m.string) - m.start(), len(m.string) - m.end()), m.groups(), reads[0]), sp
    return (i, sp.before, sp.after, None, m, reads[0]), sp


ALLCUTS = [False]


def cutsets(stream):
    n = len(stream.encode('utf-8'))
    out = [[]]
    if n > 1:
        out.append(list(range(1, n)))
        out.append([n // 2])
        if ALLCUTS[0]:
            for c in range(1, n):
                if [c] not in out:
                    out.append([c])
    return out


def run_forms(task, acc, only=None):
    ALLCUTS[0] = bool(task.get('thorough'))
    bytes_mode = task['mode'] == 'bytes'
    ic = task['ignorecase']
    nat = (lambda s: s.encode('utf-8')) if bytes_mode else (lambda s: s)
    oth = (lambda s: s) if bytes_mode else (lambda s: s.encode('utf-8'))
    pats = PATTERNS + (PATTERNS_T if task.get('thorough') else [])
    strs = STREAMS + (STREAMS_T if task.get('thorough') else [])
    for pi, p in enumerate(pats):
        if task.get('thorough') and pi % task['parts'] != task['part']:
            continue
        for stream in strs:
            if only is not None and only != (p, stream):
                continue
            for cuts in cutsets(stream):
                base_noflag = None
                # ---- string forms -------------------------------------------------
                try:
                    ref = re.compile(nat(p), re.DOTALL | (re.IGNORECASE if ic else 0))
                except re.error:
                    ref = None
                if ref is not None:
                    want, _ = run_stream(task, lambda sp: sp.expect_list([ref], timeout=5), stream, cuts, ic)
                    forms = [('native-str', lambda sp: sp.expect(nat(p))),
                             ('list-of-one', lambda sp: sp.expect([nat(p)])),
                             ('via-compile_pattern_list', lambda sp: sp.expect_list(sp.compile_pattern_list(nat(p)))),
                             ('via-compile_pattern_list-list', lambda sp: sp.expect_list(sp.compile_pattern_list([nat(p)])))]
                    if bytes_mode and all(ord(c) < 128 for c in p):
                        forms.append(('ascii-text-in-bytes-mode', lambda sp: sp.expect(p)))
                        forms.append(('ascii-text-in-bytes-mode-list', lambda sp: sp.expect([p])))
                        acc.flags['ascii_text_in_bytes_mode'] += 1
                    for name, call in forms:
                        got, _ = run_stream(task, call, stream, cuts, ic)
                        acc.execs += 1
                        acc.transitions += 1
                        if got != want:
                            acc.violation('%s:string-form:%s' % (task['mode'], name),
                                          'pattern %r ignorecase=%r stream %r cuts %r: form %s gave %r, native compiled (DOTALL%s) gave %r'
                                          % (p, ic, stream, cuts, name, got, '|IGNORECASE' if ic else '', want),
                                          dict(task=task, what='string', p=p, stream=stream, cuts=cuts, form=name))
                    if want[0] == 0:
                        acc.nontrivial += 1
                        if '\n' in stream and '.' in p and isinstance(want[2], (bytes, str)) and nat('\n') in want[2]:
                            acc.flags['dot_newline'] += 1
                        if ic:
                            strict, _ = run_stream(task, lambda sp: sp.expect_list([re.compile(nat(p), re.DOTALL)], timeout=5), stream, cuts, False)
                            if strict != want:
                                acc.flags['ignorecase_effect'] += 1
                    acc.outcomes['string:%s' % (want[0],)] += 1
                if ic:
                    continue          # compiled forms do not depend on ignorecase: done in the ic=False task
                # ---- compiled forms -----------------------------------------------
                for F in flagsets():
                    try:
                        cn = re.compile(nat(p), F)
                        co = re.compile(oth(p), F)
                    except (re.error, ValueError):
                        continue
                    want, _ = run_stream(task, lambda sp: sp.expect_list([cn], timeout=5), stream, cuts)
                    if F == 0:
                        base_noflag = want
                    elif base_noflag is not None and want != base_noflag:
                        acc.flags['flag_sensitive'] += 1
                        acc.nontrivial += 1
                    forms = [('compiled-native', lambda sp: sp.expect(cn)),
                             ('compiled-native-list', lambda sp: sp.expect([cn])),
                             ('compiled-native-ignorecase-set', None),
                             ('compiled-other-type', lambda sp: sp.expect(co)),
                             ('compiled-other-type-list', lambda sp: sp.expect([co])),
                             ('compiled-other-via-cpl', lambda sp: sp.expect_list(sp.compile_pattern_list(co)))]
                    for name, call in forms:
                        if call is None:
                            got, _ = run_stream(task, lambda sp: sp.expect(cn), stream, cuts, True)
                        else:
                            got, _ = run_stream(task, call, stream, cuts)
                        acc.execs += 1
                        acc.transitions += 1
                        if 'other' in name:
                            acc.flags['other_type_compiled'] += 1
                        if got != want:
                            fl = '|'.join(n for n in ('IGNORECASE', 'MULTILINE', 'VERBOSE', 'DOTALL', 'ASCII') if F & getattr(re, n)) or '0'
                            acc.violation('%s:compiled-form:%s:flags=%s' % (task['mode'], name, fl),
                                          'pattern %r flags %s stream %r cuts %r: form %s gave %r, native compiled gave %r'
                                          % (p, fl, stream, cuts, name, got, want),
                                          dict(task=task, what='compiled', p=p, F=F, stream=stream, cuts=cuts, form=name))
                    acc.outcomes['compiled:%s' % (want[0],)] += 1
    # ---- expect_exact forms ------------------------------------------------------
    for p in EXACT:
        if task.get('thorough') and task['part'] != 0:
            break
        for stream in strs:
            if only is not None and only != (p, stream):
                continue
            for cuts in cutsets(stream):
                want, _ = run_stream(task, lambda sp: sp.expect_exact([nat(p)]), stream, cuts, ic)
                # independent reference: plain find on the whole stream (searched after each read)
                forms = [('exact-native', lambda sp: sp.expect_exact(nat(p)))]
                if bytes_mode:
                    forms.append(('exact-ascii-text', lambda sp: sp.expect_exact(p)))
                    forms.append(('exact-ascii-text-list', lambda sp: sp.expect_exact([p])))
                    forms.append(('exact-tuple', lambda sp: sp.expect_exact((p,))))
                for name, call in forms:
                    got, _ = run_stream(task, call, stream, cuts, ic)
                    acc.execs += 1
                    acc.transitions += 1
                    if got != want:
                        acc.violation('%s:exact-form:%s' % (task['mode'], name),
                                      'exact %r stream %r cuts %r: form %s gave %r, list form gave %r' % (p, stream, cuts, name, got, want),
                                      dict(task=task, what='exact', p=p, stream=stream, cuts=cuts, form=name))
                full = stream
                exp_idx = 0 if p in full else 'TIMEOUT'
                if want[0] != exp_idx:
                    acc.violation('%s:exact-semantics' % task['mode'],
                                  'exact %r on %r gave %r (ignorecase=%r must not matter, no regex meaning)' % (p, stream, want, ic),
                                  dict(task=task, what='exact', p=p, stream=stream, cuts=cuts, form='exact-list'))
                acc.outcomes['exact:%s' % (want[0],)] += 1


class Obj(object):
    def __repr__(self):
        return '<object>'


def invalid_objects(task):
    objs = [('int', 5), ('float', 1.5), ('None-in-list', None), ('nested-list', ['a']), ('object', Obj()),
            ('tuple', ('a',)), ('bool', True)]
    if task['mode'] != 'bytes':
        objs.append(('wrong-string-type', b'a'))
        objs.append(('bytearray', bytearray(b'a')))
    else:
        objs.append(('bytearray', bytearray(b'a')))
    return objs


def run_invalid(task, acc):
    bytes_mode = task['mode'] == 'bytes'
    nat = (lambda s: s.encode('utf-8')) if bytes_mode else (lambda s: s)
    for oname, obj in invalid_objects(task):
        shapes = [('pos0', lambda v: [obj, v, EOF]), ('pos1', lambda v: [v, obj, TIMEOUT]), ('pos2', lambda v: [v, EOF, obj]),
                  ('single-in-list', lambda v: [obj])]
        if oname not in ('None-in-list', 'nested-list', 'tuple'):
            shapes.append(('bare', lambda v: obj))
        for sname, shape in shapes:
            for ename in ('expect', 'expect_exact', 'compile_pattern_list'):
                if ename == 'expect_exact' and oname == 'tuple' and sname == 'bare':
                    continue
                if ename == 'expect_exact' and sname == 'bare' and oname == 'bytearray':
                    continue   # a bare iterable is a sequence of patterns for expect_exact
                arg = shape(nat('ab'))

                def call(sp):
                    if ename == 'expect':
                        return sp.expect(arg)
                    if ename == 'expect_exact':
                        return sp.expect_exact(arg)
                    return sp.expect_list(sp.compile_pattern_list(arg))
                got, sp = run_stream(task, call, 'xaby', [], pending=nat('pend'))
                acc.execs += 1
                acc.transitions += 1
                acc.nontrivial += 1
                bad = None
                if got[0] != 'TypeError':
                    bad = 'outcome %r instead of TypeError' % (got[0],)
                elif got[5] != 0:
                    bad = '%d reads were performed before the rejection' % got[5]
                elif sp.buffer != nat('pend'):
                    bad = 'pending text changed to %r' % (sp.buffer,)
                else:
                    # a second attempt with the same object on the same spawn is rejected like the first
                    try:
                        r2 = call(sp)
                        bad = 'the same call made again was accepted (returned %r, before=%r)' % (r2, sp.before)
                    except TypeError:
                        if sp.buffer != nat('pend'):
                            bad = 'second attempt: pending text changed to %r' % (sp.buffer,)
                    except Exception as e:
                        bad = 'the same call made again raised %r instead of TypeError' % (e,)
                    acc.flags['invalid_call_repeated'] += 1
                if bad is None:
                    # the pending text and the unread stream are still all there
                    try:
                        sp.expect(nat('y'))
                        if sp.before != nat('pendxab'):
                            bad = 'after the rejected call the stream reads %r' % (sp.before,)
                    except Exception as e:
                        bad = 'follow-up expect failed %r' % e
                acc.outcomes['invalid:%s' % got[0]] += 1
                if bad:
                    acc.violation('%s:invalid:%s:%s:%s' % (task['mode'], ename, oname, sname),
                                  '%s(%r): %s' % (ename, arg, bad),
                                  dict(task=task, what='invalid', oname=oname, sname=sname, ename=ename))
                else:
                    acc.flags['rejected'] += 1


def run_history(task, acc):
    """The same pattern used repeatedly on ONE object while its configuration changes between the calls
    (ignorecase toggled, other patterns in between): every use must mean what a fresh object gives."""
    bytes_mode = task['mode'] == 'bytes'
    nat = (lambda s: s.encode('utf-8')) if bytes_mode else (lambda s: s)
    enc = None if bytes_mode else task['mode']
    # compiled patterns of the OTHER string type with the same source text and different flags, one after the
    # other on one object and side by side in one list: each keeps its own flags (= the native compiled form)
    oth = (lambda s: s) if bytes_mode else (lambda s: s.encode('utf-8'))
    for p in ('ab', 'a.b'):
        for stream in ('xAB\nab', 'a\nb ab', 'Ab\nB a-b'):
            for f1, f2 in itertools.permutations((0, re.IGNORECASE, re.DOTALL, re.IGNORECASE | re.DOTALL), 2):
                for shape in ('sequence', 'list'):
                    CLOCK.reset()

                    def mk():
                        ch = [stream.encode('utf-8')]
                        return ScriptSpawn(lambda size, timeout: ch.pop(0) if ch else TIMEOUT, timeout=5, encoding=enc), ch
                    sp, chunks = mk()
                    outs, wants = [], []
                    if shape == 'sequence':
                        calls = [([re.compile(oth(p), f)], [re.compile(nat(p), f)]) for f in (f1, f2)]
                    else:
                        calls = [([re.compile(oth(p), f1), re.compile(oth(p), f2)], [re.compile(nat(p), f1), re.compile(nat(p), f2)])]
                    for cross, native in calls:
                        sp.buffer = nat('')
                        chunks[:] = [stream.encode('utf-8')]
                        try:
                            outs.append((sp.expect(cross + [TIMEOUT]), sp.before, sp.after))
                        except Exception as e:
                            outs.append(('raised', repr(e), None))
                        ref, _ = mk()
                        wants.append((ref.expect(native + [TIMEOUT]), ref.before, ref.after))
                    acc.execs += 2 * len(calls)
                    acc.transitions += len(calls)
                    acc.nontrivial += 1
                    acc.flags['same_source_different_flags_cross_type'] += 1
                    acc.outcomes['history:cross-flags:%s' % ('ok' if outs == wants else 'bad')] += 1
                    if outs != wants:
                        acc.violation('%s:history:cross-type-same-source' % task['mode'],
                                      'compiled %s patterns %r with flags %r and %r (%s) on stream %r: got %r, the native compiled forms give %r'
                                      % ('str' if bytes_mode else 'bytes', p, f1, f2, shape, stream, outs, wants),
                                      dict(task=task, what='history'))
                        break
    entries = {'expect': lambda sp, p: sp.expect(p),
               'expect-list': lambda sp, p: sp.expect([p, TIMEOUT]),
               'compile_pattern_list': lambda sp, p: sp.expect_list(sp.compile_pattern_list(p)),
               'expect_exact': lambda sp, p: sp.expect_exact(p)}
    for p in ('ab', 'A', 'a.b', 'b$'):
        for stream in ('xAB\n', 'ab', 'a\nb', 'Ab\nB'):
            for hist in itertools.product((False, True), repeat=3):
                for ename, call in entries.items():
                    CLOCK.reset()
                    chunks = []
                    sp = ScriptSpawn(lambda size, timeout: chunks.pop(0) if chunks else TIMEOUT, timeout=5, encoding=enc)
                    for step, ic in enumerate(hist):
                        sp.ignorecase = ic
                        sp.buffer = nat('')
                        chunks[:] = [stream.encode('utf-8')]
                        try:
                            got = (call(sp, nat(p)), sp.before, sp.after)
                        except TIMEOUT:
                            got = ('TIMEOUT', sp.before, None)
                        # fresh object with the same configuration
                        ref_chunks = [stream.encode('utf-8')]
                        ref = ScriptSpawn(lambda size, timeout: ref_chunks.pop(0) if ref_chunks else TIMEOUT, timeout=5, encoding=enc)
                        ref.ignorecase = ic
                        try:
                            want = (call(ref, nat(p)), ref.before, ref.after)
                        except TIMEOUT:
                            want = ('TIMEOUT', ref.before, None)
                        acc.execs += 2
                        acc.transitions += 1
                        if len(set(hist[:step + 1])) > 1:
                            acc.nontrivial += 1
                        acc.outcomes['history:%s' % (want[0],)] += 1
                        if got != want:
                            acc.violation('%s:history:%s' % (task['mode'], ename),
                                          'pattern %r via %s on one object, ignorecase history %r, step %d on stream %r: got %r, a fresh object gives %r'
                                          % (p, ename, hist, step, stream, got, want),
                                          dict(task=task, what='history'))
                            break


def run_task(task):
    install_clock()
    acc = Acc()
    if task['kind'] == 'forms':
        run_forms(task, acc)
    elif task['kind'] == 'history':
        run_history(task, acc)
    else:
        run_invalid(task, acc)
    acc.states = len(acc.outcomes)
    acc.sample(dict(task=task, example='pattern %r flags IGNORECASE|MULTILINE stream %r cuts [1,2]' % (PATTERNS[7], STREAMS[3])))
    return acc


def replay(spec):
    # the tables are tiny: re-run the whole task and report whether the same key recurs
    from mc.explore import unjson
    spec = unjson(spec)
    install_clock()
    acc = Acc()
    if spec['task']['kind'] == 'forms':
        run_forms(spec['task'], acc, only=(spec['p'], spec['stream']))
    elif spec['task']['kind'] == 'history':
        run_history(spec['task'], acc)
    else:
        run_invalid(spec['task'], acc)
    out = {'violation': None, 'keys': sorted(acc.violations)}
    for k, lst in sorted(acc.violations.items()):
        for v in lst:
            r = v['replay']
            if all(r.get(f) == spec.get(f) for f in ('what', 'p', 'F', 'stream', 'form', 'oname', 'sname', 'ename')):
                out['violation'] = {'key': k, 'msg': v['msg']}
                return out
    for k in sorted(acc.violations):
        v = acc.violations[k][0]
        r = v['replay']
        if all(r.get(f) == spec.get(f) for f in ('what', 'form', 'oname', 'sname', 'ename')) and (
                'F' not in spec or r.get('F') == spec.get('F')):
            out['violation'] = {'key': k, 'msg': v['msg']}
            return out
    return out
