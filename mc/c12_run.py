"""C12 -- run(): complete output, each event answered once, true exit status.

The real pexpect.run() drives a harness spawn (pexpect.run.spawn replaced by the
_spawnpty-seam subclass) whose peer is a scripted, reactive dialogue on the slave
side: every dialogue of <= 4 steps x event tables x modes x withexitstatus."""
import itertools
import re
import sys
import types

import pexpect
from pexpect import EOF, TIMEOUT

from mc import env as E
from mc import lifecycle as L
from mc.explore import Chooser, Cut
from mc.runner import Acc

PROPERTY = 'C12'
RULE = ('case = (dialogue of <= 4 steps + exit, event table, mode, withexitstatus); every case executed once on the virtual clock; '
        'non-trivial = an event pattern occurs, or the peer waits for input / pauses beyond the timeout')
ASSUMPTIONS = ['event patterns are atomic tokens (P1, P2, P[0-9]) so that chunking cannot legitimately change which occurrence matches',
               'for tables with a TIMEOUT key only the output and the pattern responses are judged (the number of TIMEOUT events depends on timing)']
REQUIRED_FLAGS = {'event_answered': 1, 'timeout_event': 1, 'callback_stop': 1, 'split_occurrence': 1, 'list_priority': 1, 'exit_code': 1,
                  'search_window_kwarg': 1, 'detached_then_exits_later': 1, 'run_after_truncated_run': 1,
                  'timeout_exactly_zero': 1}

T = 0.3
STEPS = ['E0', 'E1', 'E2', 'ES', 'EZ', 'W', 'Z', 'H']
TEXT = {'E0': b'plain ', 'E1': b'ask P1 ', 'E2': b'P1 then P2 ', 'EU': b'caf\xc3'}


class Peer(object):
    def __init__(self, env, sp, steps, code):
        self.env, self.sp = env, sp
        self.steps = []
        for st in steps:
            if st == 'ES':
                self.steps += ['ESa', ('D', 0.01), 'ESb']
            elif st == 'EZ':
                # an occurrence whose two halves are separated by a pause longer than the timeout
                self.steps += ['ESa', ('D', 0.5), 'ESb']
            elif st == 'Z':
                self.steps.append(('D', 0.5))
            else:
                self.steps.append(st)
        self.steps.append(('X', code))
        self.i = 0
        self.emitted = []        # (virtual time, bytes)
        self.got_lines = 0
        self.resume_at = None
        self.consumed = 0
        self.busy = False
        self.hung = False

    def input(self):
        return bytes(self.env.sent.get(self.sp.hs_master, b''))

    def emit(self, data):
        if self.hung:
            return                                # the child gave up its terminal: nothing it writes goes anywhere
        pp = getattr(self.sp, 'ptyproc', None)
        late = pp is not None and pp.fileobj.closed     # run() has already stopped and is closing the child
        if not late:
            self.emitted.append((self.env.now(), data))
        self.env.peer_write(self.sp.hs_slave, data)

    def pump(self):
        if self.busy:
            return
        self.busy = True
        try:
            env = self.env
            while self.i < len(self.steps):
                st = self.steps[self.i]
                if st in TEXT:
                    self.emit(TEXT[st])
                elif st == 'ESa':
                    self.emit(b'xP')
                elif st == 'ESb':
                    self.emit(b'1y ')
                elif st == 'H':
                    # the child closes its terminal (detaches) but goes on running until the exit step
                    if not self.hung:
                        self.hung = True
                        self.hung_during = env.blocking_in    # what the library was blocked in when the terminal went away
                        env.peer_close(self.sp.hs_slave)
                elif st == 'W':
                    if self.hung:
                        self.i += 1
                        continue
                    data = self.input()
                    nl = data.find(b'\n', self.consumed)
                    if nl < 0:
                        return
                    self.consumed = nl + 1
                elif st[0] == 'D':
                    if self.resume_at is None:
                        self.resume_at = E.CLOCK.now + st[1]
                        env.add('fn', self.pump, at=env.now() + st[1])
                        return
                    if E.CLOCK.now < self.resume_at - 1e-9:
                        return
                    self.resume_at = None
                elif st[0] == 'X':
                    env.procs.exit(self.sp.hs_proc, st[1])
                self.i += 1
        finally:
            self.busy = False


class Recorder(object):
    def __init__(self):
        self.calls = []

    def note(self, d, tag):
        child = d['child']
        self.calls.append((tag, child.after if isinstance(child.after, (bytes, str)) else getattr(child.after, '__name__', None),
                           d.get('event_count')))

    def method_stop(self, d):
        self.note(d, 'method_stop')
        return True


def tables(mode, rec):
    S = (lambda s: s.encode('ascii')) if mode == 'bytes' else (lambda s: s)

    def cb_none(d):
        rec.note(d, 'cb_none')

    def cb_str(d):
        rec.note(d, 'cb_str')
        return S('b2\n')

    def cb_true(d):
        rec.note(d, 'cb_true')
        return True
    cnt = {'n': 0}

    def cb_timeout(d):
        rec.note(d, 'cb_timeout')
        cnt['n'] += 1
        return cnt['n'] >= 2

    def cb_tstop(d):
        rec.note(d, 'cb_timeout')
        return True

    def cb_eof(d):
        rec.note(d, 'cb_eof')
        return True
    return {
        'none': None,
        'dict-str': {S('P1'): S('a1\n')},
        'list-str-fn': [(S('P1'), S('a1\n')), (S('P2'), cb_str)],
        'list-overlap-general-first': [(S('P[0-9]'), S('gen\n')), (S('P1'), S('spec\n'))],
        'list-overlap-specific-first': [(S('P1'), S('spec\n')), (S('P[0-9]'), S('gen\n'))],
        'dict-cb-none-method-stop': {S('P1'): cb_none, S('P2'): rec.method_stop},
        'list-timeout-event': [(TIMEOUT, cb_timeout), (S('P1'), S('a1\n'))],
        'dict-eof-event': {EOF: cb_eof, S('P2'): S('b2\n')},
        'list-cb-true': [(S('P1'), cb_true)],
        # the later-listed pattern starts earlier in the stream and ends later: stream order decides
        'list-overlap-later-starts-earlier': [(S('P1'), S('spec\n')), (S('ask P1 '), S('long\n'))],
        'timeout-stop': [(TIMEOUT, cb_tstop)],
        # the same pattern listed twice: the first entry answers, the second is never used
        'list-duplicate-pattern': [(S('P1'), S('first\n')), (S('P2'), cb_str), (S('P1'), cb_true)],
    }


TABLES = ['none', 'dict-str', 'list-str-fn', 'list-overlap-general-first', 'list-overlap-specific-first',
          'dict-cb-none-method-stop', 'list-timeout-event', 'dict-eof-event', 'list-cb-true',
          'list-overlap-later-starts-earlier', 'timeout-stop', 'list-duplicate-pattern']


def bounds(tier):
    return dict(steps=STEPS, max_steps=3 if tier == 'quick' else 4, tables=TABLES, modes=['bytes', 'utf-8'], timeout=T)


def tasks(tier):
    out = []
    for tb in TABLES:
        for mode in ('bytes', 'utf-8'):
            out.append(dict(table=tb, mode=mode, tier=tier))
    return out


class ShortWrites(Chooser):
    """Environment answers 'the kernel took only part of the payload' as long as the budget lasts."""
    __slots__ = ()

    def choose(self, n, label=''):
        if label == 'short-write':
            self.trace.append((n, 1))
            self.labels.append(label)
            return 1
        return Chooser.choose(self, n, label)


def run_case(task, steps, code, withexit, sw=None, Tcase=None, short=False):
    Tcase = T if Tcase is None else Tcase
    E.install()
    prun = sys.modules['pexpect.run']
    env = E.Env(ShortWrites(()) if short else Chooser(()))
    if short:
        env.short_writes = 2
    box = {}
    viol = None
    obs = {}
    rec = Recorder()
    mode = task['mode']
    enc = None if mode == 'bytes' else mode
    try:
        def on_spawn(sp):
            box['sp'] = sp
            box['peer'] = Peer(env, sp, steps, code)
            env.pump = box['peer'].pump
            box['peer'].pump()        # a child starts writing as soon as it exists, not at the library's first system call
        env.on_spawn = on_spawn
        events = tables(mode, rec)[task['table']]
        saved = prun.spawn
        prun.spawn = E.hs_class(dict(raw=True))
        exc = None
        try:
            try:
                kw = {} if sw is None else {'searchwindowsize': sw}
                out = prun.run('/bin/true', timeout=Tcase, withexitstatus=withexit, events=events, encoding=enc, **kw)
            except E.Hang:
                raise
            except Cut:
                raise
            except Exception as e:
                exc = e
                out = None
        finally:
            prun.spawn = saved
        peer = box['peer']
        sp = box['sp']
        emitted = b''.join(d for _, d in peer.emitted)
        text = emitted if enc is None else emitted.decode(enc, 'ignore' if 'EU' in steps else 'strict')
        if exc is not None:
            viol = ('exception', 'run() raised %r' % (exc,))
        else:
            status = None
            if withexit:
                out, status = out
            obs = dict(out=out, status=status, received=peer.input(), calls=rec.calls, emitted=emitted)
            if short:
                obs['short_writes_done'] = env.short_writes_done
            if type(out) is not type(text):
                viol = ('type', 'run() returned %s in %s mode' % (type(out).__name__, mode))
            elif not text.startswith(out):
                # find what happened: duplication or loss
                viol = ('output', 'run() returned %r which is not a prefix of what the child wrote %r' % (out, text))
            else:
                # expected responses by sequential leftmost scanning of the returned text
                S = (lambda s: s.encode('ascii')) if enc is None else (lambda s: s)
                pats = []
                if isinstance(events, list):
                    pats = [(k, v) for k, v in events]
                elif isinstance(events, dict):
                    pats = list(events.items())
                textpats = [(re.compile(k, re.DOTALL), v) for k, v in pats if k not in (EOF, TIMEOUT)]
                pos = 0
                want_sent = b''
                want_calls = []
                stopped = False
                while textpats and not stopped:
                    best = None
                    for idx, (cre, resp) in enumerate(textpats):
                        m = cre.search(out, pos)
                        if m and (best is None or m.start() < best[0].start()):
                            best = (m, resp)
                    if best is None:
                        break
                    m, resp = best
                    pos = m.end()
                    if isinstance(resp, (bytes, str)):
                        want_sent += resp if isinstance(resp, bytes) else resp.encode(enc)
                    else:
                        name = getattr(resp, '__name__', 'cb')
                        want_calls.append(name if name != 'method_stop' else 'method_stop')
                        if name == 'cb_str':
                            want_sent += b'b2\n'
                        if name in ('cb_true', 'method_stop'):
                            stopped = True
                            if pos != len(out):
                                viol = ('output', 'callback asked to stop at offset %d but run() returned %d characters' % (pos, len(out)))
                got_calls = [c[0] for c in rec.calls if c[0] not in ('cb_timeout', 'cb_eof')]
                if viol is None and peer.input() != want_sent:
                    viol = ('responses', 'child received %r, expected %r for the occurrences in %r' % (peer.input(), want_sent, out))
                if viol is None and got_calls != want_calls:
                    viol = ('callbacks', 'callbacks invoked %r, expected %r' % (got_calls, want_calls))
                # completeness: when the run ended by EOF everything must be returned
                ended_eof = (not stopped) and peer.i >= len(peer.steps) and sp.flag_eof
                if viol is None and ended_eof and out != text:
                    viol = ('output', 'child exited: run() returned %r, the child wrote %r' % (out, text))
                if viol is None and not stopped and not ended_eof and task['table'] != 'list-timeout-event':
                    # stopped by TIMEOUT: everything written before the stop must be there
                    if out != text:
                        viol = ('output', 'stopped on TIMEOUT: returned %r, the child had written %r' % (out, text))
                if viol is None and withexit:
                    want = L.decode(sp.hs_proc.status)
                    if want is None or status != want[0]:
                        viol = ('exitstatus', 'run() reported exit status %r, real fate %r' % (status, want))
                    elif sp.flag_eof and not stopped and status != code:
                        # the run stopped because the child's output ended; the child was about to exit with
                        # `code` by itself (every dialogue ends with exit): that is the code to report, the
                        # child must not be cut short by run() itself
                        during = getattr(peer, 'hung_during', None)
                        viol = ('exitstatus:cut-short' + (':hangup-during-timed-%s' % during if during else ''), 'output ended, the child was exiting with code %r by itself; run() reported %r '
                                '(the child\'s fate: %r)' % (code, status, want))
                obs['stopped'] = stopped
                obs['ended_eof'] = ended_eof
    except E.Hang as h:
        viol = ('hang', str(h))
    except Cut as c:
        viol = ('horizon', str(c))
    finally:
        if 'sp' in box:
            E.finalize_pty(box['sp'])
        env.finish()
    return obs, viol


def env_short_done(obs):
    return bool(obs.get('short_writes_done'))


def run_task(task):
    acc = Acc()
    q = task['tier'] == 'quick'
    maxlen = 3 if q else 4
    variants = [(0, False, None, None, False), (7, True, None, None, False)]
    if task['table'] in ('dict-str', 'list-str-fn'):
        # the first two writes of an answer are short writes (the rest has to be handed over as well)
        variants += [(7, True, None, None, True)]
    if task['table'] in ('none', 'timeout-stop'):
        # a search window given through run()'s keyword arguments (only where no text pattern is listed: what a
        # window may legitimately hide from a pattern is C03's subject)
        variants += [(0, False, 4, None, False), (7, True, 4, None, False)]
    if task['table'] in ('none', 'timeout-stop', 'dict-str'):
        # timeout exactly 0 ("just poll"): everything the child has written by then is still returned / answered
        variants += [(7, True, None, 0, False)]
    for n in range(0, maxlen + 1):
        for steps in itertools.product(STEPS, repeat=n):
            for code, withexit, sw, Tc, short in variants:
                if 'H' in steps and steps.index('H') != len(steps) - 1 and not (steps[-1] == 'Z' and steps.index('H') == len(steps) - 2):
                    continue       # after detaching the child only waits and exits
                obs, viol = run_case(task, steps, code, withexit, sw, Tc, short)
                if short and env_short_done(obs):
                    acc.flags['answer_sent_in_short_writes'] += 1
                if sw is not None:
                    acc.flags['search_window_kwarg'] += 1
                if Tc == 0:
                    acc.flags['timeout_exactly_zero'] += 1
                if 'H' in steps and steps[-1] == 'Z' and withexit:
                    acc.flags['detached_then_exits_later'] += 1
                acc.execs += 1
                acc.transitions += n + 1
                nt = any(s in ('E1', 'E2', 'ES', 'EZ', 'W', 'Z') for s in steps)
                if nt:
                    acc.nontrivial += 1
                if obs.get('received'):
                    acc.flags['event_answered'] += 1
                if any(c[0] == 'cb_timeout' for c in obs.get('calls', ())):
                    acc.flags['timeout_event'] += 1
                if obs.get('stopped'):
                    acc.flags['callback_stop'] += 1
                if ('ES' in steps or 'EZ' in steps) and task['table'] != 'none':
                    acc.flags['split_occurrence'] += 1
                if task['table'].startswith('list-overlap') and obs.get('received'):
                    acc.flags['list_priority'] += 1
                if withexit and obs.get('ended_eof'):
                    acc.flags['exit_code'] += 1
                acc.outcomes['%s/%s' % ('viol:' + viol[0] if viol else 'ok',
                                        'stop' if obs.get('stopped') else 'eof' if obs.get('ended_eof') else 'timeout')] += 1
                if viol:
                    acc.violation('%s:%s:%s' % (task['table'], task['mode'], viol[0]),
                                  'dialogue %r exit %d: %s' % (steps, code, viol[1]),
                                  dict(task=task, steps=list(steps), code=code, withexit=withexit, sw=sw, Tc=Tc, short=short))
    if task['mode'] != 'bytes':
        # two runs one after the other in this process; the first child's output stops inside a character
        for first in (('EU',), ('E0', 'EU'), ('EU', 'Z')):
            for second in (('E0',), ('E1', 'W'), ('E2',)):
                run_case(task, first, 0, False)
                obs, viol = run_case(task, second, 7, True)
                acc.execs += 2
                acc.transitions += len(first) + len(second) + 2
                acc.nontrivial += 1
                acc.flags['run_after_truncated_run'] += 1
                acc.outcomes['after-truncated:%s' % ('viol:' + viol[0] if viol else 'ok')] += 1
                if viol:
                    acc.violation('%s:%s:after-truncated-run:%s' % (task['table'], task['mode'], viol[0]),
                                  'after a run whose output ended inside a character (%r), dialogue %r: %s' % (first, second, viol[1]),
                                  dict(task=task, first=list(first), steps=list(second), code=7, withexit=True))
    acc.states += 1
    acc.sample(dict(task=task, steps=['E1', 'W', 'ES'], code=7, withexitstatus=True))
    return acc


def replay(spec):
    from mc.explore import unjson
    spec = unjson(spec)
    task = spec['task']
    if spec.get('first'):
        run_case(task, tuple(spec['first']), 0, False)
    obs, viol = run_case(task, tuple(spec['steps']), spec['code'], spec['withexit'], spec.get('sw'), spec.get('Tc'), bool(spec.get('short')))
    out = {'observation': {k: repr(v) for k, v in obs.items()}, 'violation': None}
    if viol:
        out['violation'] = {'key': '%s:%s:%s%s' % (task['table'], task['mode'], 'after-truncated-run:' if spec.get('first') else '', viol[0]),
                            'msg': viol[1]}
    return out
