"""E2 -- the controlled environment.

Real kernel objects (pty pairs, pipes, socketpairs) whose peer end is held by
the harness; the library's system calls are interposed by replacing the names
os / time / select / subprocess / threading inside the pexpect and ptyprocess
module namespaces with thin proxies (the real modules are never patched);
a virtual clock; a small simulated process table (ProcSim, validated against
the real kernel by mc/conform_procsim.py).

Every intercepted call is a scheduling point: the explorer decides how many of
the peer's pending actions happen first.  Calls that would block are resolved
on the virtual clock.
"""
import errno
import weakref as _weakref
import fcntl
import os as _os
import select as _select
import signal
import socket as _socket
import struct
import termios
import time as _time
import tty

from mc.explore import Cut
from mc.vclock import CLOCK

ENV = None                 # the Env of the execution in progress (or None: pass-through)
FAKE_PID_BASE = 5000000    # > pid_max: can never be a real process


class Hang(Cut):
    """The library blocks for ever (no timeout, nothing can wake it)."""


class HarnessError(Exception):
    pass


# ----------------------------------------------------------------------------
# Simulated process table
# ----------------------------------------------------------------------------
FATAL_DEFAULT = set(range(1, 65)) - {signal.SIGCHLD, signal.SIGCONT, signal.SIGSTOP, signal.SIGTSTP,
                                      signal.SIGTTIN, signal.SIGTTOU, signal.SIGURG, signal.SIGWINCH, 32, 33}
STOPPING = {signal.SIGSTOP, signal.SIGTSTP, signal.SIGTTIN, signal.SIGTTOU}
CORE = {signal.SIGQUIT, signal.SIGILL, signal.SIGABRT, signal.SIGFPE, signal.SIGSEGV, signal.SIGBUS,
        signal.SIGSYS, signal.SIGTRAP, signal.SIGXCPU, signal.SIGXFSZ}


class Proc(object):
    def __init__(self, pid, ignore=(), stopped=False):
        self.pid = pid
        self.state = 'stopped' if stopped else 'running'   # running|stopped|zombie|reaped
        self.status = None
        self.ignore = set(ignore)
        self.pending = []          # signals queued while stopped
        self.die_at = None         # (virtual time, status) of a death already decided
        self.on_death = None
        self.signals = []          # log of delivered kill() calls
        self.handlers = {}         # signal -> callable (caught signals)

    def alive(self):
        return self.state in ('running', 'stopped')


class ProcSim(object):
    def __init__(self, env):
        self.env = env
        self.procs = {}
        self.next_pid = FAKE_PID_BASE + 1

    def new(self, **kw):
        p = Proc(self.next_pid, **kw)
        self.next_pid += 1
        self.procs[p.pid] = p
        return p

    def _die(self, p, status):
        if not p.alive():
            return
        p.state = 'zombie'
        p.status = status
        p.die_at = None
        if p.on_death:
            p.on_death(p)

    def exit(self, p, code):
        self._die(p, (code & 0xff) << 8)

    def killed(self, p, sig, core=False):
        self._die(p, sig | (0x80 if core else 0))

    def settle(self):
        """Apply deaths whose time has come."""
        now = CLOCK.now
        for p in self.procs.values():
            if p.alive() and p.die_at is not None and p.die_at[0] <= now:
                self._die(p, p.die_at[1])

    def next_death(self):
        ts = [p.die_at[0] for p in self.procs.values() if p.alive() and p.die_at is not None]
        return min(ts) if ts else None

    def _deliver(self, p, sig):
        if sig in p.handlers and sig not in (signal.SIGKILL, signal.SIGSTOP) and p.state == 'running':
            p.handlers[sig](sig)          # the child catches the signal (e.g. a REPL on SIGINT)
            return
        if sig in p.ignore and sig not in (signal.SIGKILL, signal.SIGSTOP):
            return
        if sig == signal.SIGKILL:
            self._fatal(p, sig)
        elif sig == signal.SIGCONT:
            if p.state == 'stopped':
                p.state = 'running'
                pend, p.pending = p.pending, []
                for s in pend:
                    if p.alive():
                        self._deliver(p, s)
        elif sig in STOPPING:
            if p.state == 'running':
                p.state = 'stopped'
        elif sig in FATAL_DEFAULT:
            if p.state == 'stopped':
                p.pending.append(sig)
            else:
                self._fatal(p, sig)

    def _fatal(self, p, sig):
        status = sig | (0x80 if (sig in CORE and self.env.core_dumps) else 0)
        lat = self.env.signal_latency()
        if lat <= 0:
            self._die(p, status)
        elif p.die_at is None or p.die_at[0] > CLOCK.now + lat:
            p.die_at = (CLOCK.now + lat, status)

    # -- the two system calls -------------------------------------------------
    def kill(self, pid, sig):
        self.settle()
        p = self.procs.get(pid)
        if p is None or p.state == 'reaped':
            raise ProcessLookupError(errno.ESRCH, 'No such process')
        p.signals.append(sig)
        if p.state == 'zombie' and getattr(self, 'esrch_on_zombie', False) and sig != 0:
            self.esrch_on_zombie = False          # injected once
            raise ProcessLookupError(errno.ESRCH, 'No such process')
        if sig == 0 or p.state == 'zombie':
            return
        self._deliver(p, sig)

    def waitpid(self, pid, options):
        self.settle()
        p = self.procs.get(pid)
        if p is None or p.state == 'reaped':
            raise ChildProcessError(errno.ECHILD, 'No child processes')
        if p.state == 'zombie':
            p.state = 'reaped'
            return (pid, p.status)
        if options & _os.WNOHANG:
            return (0, 0)
        # blocking wait on a live child: virtual wait until its death
        self.env.block_until(lambda: p.state == 'zombie', None, 'waitpid')
        p.state = 'reaped'
        return (pid, p.status)


# ----------------------------------------------------------------------------
# Peer actions
# ----------------------------------------------------------------------------
class Action(object):
    __slots__ = ('kind', 'arg', 'at', 'fd')

    def __init__(self, kind, arg=None, at=None, fd=None):
        self.kind, self.arg, self.at, self.fd = kind, arg, at, fd

    def __repr__(self):
        arg = self.arg
        if isinstance(arg, tuple) and arg and isinstance(arg[0], Proc):
            arg = ('proc',) + tuple(arg[1:])
        elif callable(arg):
            arg = 'fn'
        return '%s(%r)%s' % (self.kind, arg, '' if self.at is None else '@%g' % self.at)


def fd_open(fd):
    try:
        _os.fstat(fd)
        return True
    except OSError:
        return False


def fionread(fd):
    return struct.unpack('i', fcntl.ioctl(fd, termios.FIONREAD, b'\0\0\0\0'))[0]


class Env(object):
    def __init__(self, ch, tick=1e-6, bound_sched=True):
        global ENV
        self.ch = ch
        CLOCK.reset(tick)
        CLOCK.virtual = True
        CLOCK.sleep_hook = self.on_sleep
        self.t0 = CLOCK.now
        self.procs = ProcSim(self)
        self.script = []           # pending peer actions, in order
        self.fds = set()           # harness-owned real fds (closed in finish())
        self.master_of = {}        # slave fd -> master fd (for FIONREAD sync)
        self.hbuf = {}             # pty master fd -> bytes the peer wrote, pulled out of the kernel at write time
        self.raw_slaves = set()
        self.short_reads = 0       # budget of injected short reads (environment answer)
        self.short_writes = 0      # budget of injected short writes (environment answer)
        self.short_writes_done = 0
        self.write_cap = {}        # fd -> most bytes one write() hands over
        self.no_real_write = set() # fds whose writes are recorded in `sent` only
        self.log = []              # trace of (virtual time, event)
        self.points = 0
        self.core_dumps = False
        self.latency_choices = (0.0,)
        self.eintr_budget = 0
        self.max_points = 20000
        self.sched_enabled = True
        self.sockets = {}
        self.calls = []            # names of intercepted calls, in order (vacuity / debugging)
        self.no_more_timeouts = False
        self.idle = 0
        self.pump = None           # reactive peer hook, called at every scheduling point
        self.hs_spawns = []        # harness spawns created in this environment
        self.sent = {}             # fd -> bytes the library wrote with os.write (harness-side transcript)
        self.eager_reader = False
        self.blocked = {}          # label -> virtual seconds spent blocked there
        self.blocking_in = None    # label of the virtual blocking call the library is in right now
        self.unbounded_waits = 0   # blocking waits entered without a deadline while nothing was ready
        self.idle_limit = 3
        self.popen_dirty = True
        self.baton = None
        self.popen = None
        self.popen_time_sched = False
        ENV = self

    # -- bookkeeping ------------------------------------------------------
    def now(self):
        return CLOCK.now - self.t0

    def own(self, fd):
        self.fds.add(fd)
        return fd

    def finish(self):
        global ENV
        ENV = None
        CLOCK.sleep_hook = None
        CLOCK.virtual = False      # outside an execution the library talks to real processes in real time
        for fd in list(self.fds):
            try:
                _os.close(fd)
            except OSError:
                pass
        self.fds.clear()
        for s in self.sockets.values():
            try:
                s.close()
            except OSError:
                pass

    # -- kernel objects ---------------------------------------------------
    def openpty(self, raw=True, echo=False):
        m, s = _os.openpty()
        if raw:
            tty.setraw(s)
        if echo:
            a = termios.tcgetattr(s)
            a[3] |= termios.ECHO
            termios.tcsetattr(s, termios.TCSANOW, a)
        self.own(m)
        self.own(s)
        self.master_of[s] = m
        self.hbuf[m] = bytearray()
        if raw and not echo:
            self.raw_slaves.add(s)
        return m, s

    def settle(self, fds):
        """(kept for the selector of the asyncio harness) nothing to do: pty data is pulled out
        of the kernel at write time, see peer_write."""
        return

    def readable(self, fd):
        """Is fd readable as far as the harness-side pty buffer is concerned?"""
        b = self.hbuf.get(fd)
        return bool(b)

    def pipe(self):
        r, w = _os.pipe()
        self.own(r)
        self.own(w)
        return r, w

    # -- script -----------------------------------------------------------
    def add(self, kind, arg=None, at=None, fd=None):
        self.script.append(Action(kind, arg, None if at is None else self.t0 + at, fd))

    def signal_latency(self):
        if len(self.latency_choices) == 1:
            return self.latency_choices[0]
        return self.latency_choices[self.ch.choose(len(self.latency_choices), 'signal-latency')]

    def fire(self, a):
        self.log.append((round(self.now(), 6), repr(a)))
        k = a.kind
        if k == 'w':
            self.peer_write(a.fd, a.arg)
        elif k == 'hup':
            self.peer_close(a.fd)
        elif k == 'exit':
            p, code = a.arg
            self.procs.exit(p, code)
        elif k == 'sig':
            p, sig = a.arg[0], a.arg[1]
            self.procs.killed(p, sig, core=len(a.arg) > 2 and a.arg[2])
        elif k == 'echo_off':
            at = termios.tcgetattr(a.fd)
            at[3] &= ~termios.ECHO
            termios.tcsetattr(a.fd, termios.TCSANOW, at)
        elif k == 'fn':
            a.arg()
        elif k == 'shut_wr':
            a.arg.shutdown(_socket.SHUT_WR)
        else:
            raise HarnessError('unknown action %r' % (a,))
        if self.eager_reader and self.baton is not None:
            g = 0
            while self.baton.enabled() and g < 100000:
                g += 1
                self.baton.step()

    def peer_write(self, fd, data):
        if fd not in self.fds:
            return                      # already hung up: the write is lost with the process
        m = self.master_of.get(fd)
        if m is not None and m in self.hbuf:
            # pty delivery is asynchronous (flip-buffer work queue; FIONREAD, poll and read can
            # disagree for a few microseconds, and a hang-up can overtake uncommitted bytes).
            # To make "what is readable at this system call" a deterministic function of the
            # schedule, the bytes are pulled out of the kernel right here (slave in raw mode:
            # byte exact) and served to the library's os.read from this buffer; hang-up / EIO
            # stay the kernel's.
            buf = self.hbuf[m]
            if fd in self.raw_slaves:
                # raw mode is byte exact: the round trip through the kernel (about 140 us of
                # work-queue latency per write) would return these very bytes
                buf += data
                return
            off = 0
            while off < len(data):
                piece = data[off:off + 2048]
                _os.write(fd, piece)
                need = len(piece)
                while need:
                    got = _os.read(m, need)
                    buf += got
                    need -= len(got)
                off += len(piece)
        else:
            _os.write(fd, data)

    def peer_close(self, fd):
        if fd in self.fds:
            self.fds.discard(fd)
            m = self.master_of.get(fd)
            _os.close(fd)
            if m is not None and m in self.fds:
                p = _select.poll()
                p.register(m, _select.POLLIN | _select.POLLHUP)
                t_end = _time.time() + 2.0
                while not any(ev & _select.POLLHUP for _, ev in p.poll(0)):
                    if _time.time() > t_end:
                        raise HarnessError('pty hangup not visible')

    # -- scheduling -------------------------------------------------------
    def untimed_ready(self):
        """Number of leading untimed actions that may fire now."""
        n = 0
        for a in self.script:
            if a.at is not None:
                break
            n += 1
        return n

    def fire_due(self):
        """Fire timed actions whose time has come (and untimed ones queued before them)."""
        fired = False
        while self.script:
            a = self.script[0]
            if a.at is not None and a.at <= CLOCK.now:
                self.script.pop(0)
                self.fire(a)
                fired = True
            else:
                break
        self.procs.settle()
        self.master_hangups()
        return fired

    def master_hangups(self):
        """Closing the master side of a pty hangs the terminal up: the kernel sends SIGHUP to the session
        leader on the slave side (our simulated child), whether or not it still has the slave open."""
        for rec in self.hs_spawns:
            if rec[3]:
                continue
            sp = rec[0]()
            if sp is not None:
                pp = getattr(sp, 'ptyproc', None)
                if pp is None:
                    continue
                f = getattr(pp, 'fileobj', None)
                if not ((f is not None and f.closed) or not fd_open(rec[2])):
                    continue
            # (a collected object has closed its descriptor in __del__)
            rec[3] = True
            p = rec[1]
            if p.alive():
                self.procs._deliver(p, signal.SIGHUP)

    def sched(self, label):
        """A scheduling point before an intercepted call."""
        self.points += 1
        self.calls.append(label)
        if self.points > self.max_points:
            raise Cut('horizon: more than %d scheduling points' % self.max_points)
        self.fire_due()
        if self.pump is not None:
            self.pump()
        if not self.sched_enabled:
            return
        baton = None if self.eager_reader else self.baton
        if baton is None:
            n = self.untimed_ready()
            if n:
                k = self.ch.choose(n + 1, label)
                for _ in range(k):
                    self.fire(self.script.pop(0))
                    self.fire_due()
        else:
            # several actors: repeatedly pick continue / next peer action / one reader-thread step.
            # Partial-order reduction: peer actions (writes to the pipe) commute with everything the
            # main thread does (it only touches the Queue), so a peer action is only scheduled
            # directly in front of a reader-thread step (or another peer action); and the peer /
            # reader may not be starved for more than idle_limit consecutive points (fairness
            # bound, keeps executions finite although PopenSpawn polls instead of blocking).
            must_step = False
            while True:
                en = baton.enabled()
                pend = self.untimed_ready()
                opts = []
                if not (must_step and en) and not ((en or pend) and self.idle >= self.idle_limit):
                    opts.append('go')
                if pend:
                    opts.append('peer')
                if en:
                    opts.append('reader')
                if not opts:
                    break
                c = opts[self.ch.choose(len(opts), label)] if len(opts) > 1 else opts[0]
                if c == 'go':
                    if en or pend:
                        self.idle += 1
                    break
                self.idle = 0
                if c == 'peer':
                    self.fire(self.script.pop(0))
                    self.fire_due()
                    must_step = True
                else:
                    baton.step()
                    must_step = False
        self.procs.settle()

    def next_timed(self):
        for a in self.script:
            if a.at is not None:
                return a.at
            break
        return None

    def block_until(self, ready, timeout, label):
        """Virtual blocking wait.  ready() polls the real kernel state.  Returns True when
        ready, False when `timeout` (virtual seconds) elapsed.  Raises Hang if nothing can
        ever wake the caller."""
        deadline = None if timeout is None else CLOCK.now + timeout
        guard = 0
        t_in = CLOCK.now
        outer = self.blocking_in
        self.blocking_in = label
        try:
            return self._block_until(ready, deadline, label)
        finally:
            self.blocking_in = outer
            self.blocked[label] = self.blocked.get(label, 0.0) + (CLOCK.now - t_in)

    def _block_until(self, ready, deadline, label):
        guard = 0
        if deadline is None and not ready():
            self.unbounded_waits += 1        # the caller went to sleep with nothing but the peer to wake it
        while True:
            guard += 1
            if guard > 10000:
                raise HarnessError('block_until does not converge')
            if ready():
                return True
            n = self.untimed_ready()
            if n:
                # the peer may act during the wait (k >= 1) or not before the deadline (k == 0)
                lo = 0 if (deadline is not None and not self.no_more_timeouts) else 1
                k = lo + self.ch.choose(n + 1 - lo, label + '-wait')
                if k:
                    step = 1e-3 if deadline is None else min(1e-3, max(0.0, (deadline - CLOCK.now) / 2))
                    CLOCK.now += step
                    for _ in range(k):
                        self.fire(self.script.pop(0))
                        self.fire_due()
                    self.procs.settle()
                    continue
            cands = [t for t in (self.next_timed(), self.procs.next_death()) if t is not None]
            nxt = min(cands) if cands else None
            if nxt is not None and (deadline is None or nxt <= deadline):
                if nxt > CLOCK.now:
                    CLOCK.now = nxt
                self.fire_due()
                continue
            if deadline is not None:
                if deadline > CLOCK.now:
                    CLOCK.now = deadline
                return False
            raise Hang('%s blocks for ever at t=%.3f' % (label, self.now()))

    def on_sleep(self, x):
        self.sched('sleep')
        end = CLOCK.now + max(0.0, x)
        while True:
            cands = [t for t in (self.next_timed(), self.procs.next_death()) if t is not None and t <= end]
            if not cands:
                break
            CLOCK.now = max(CLOCK.now, min(cands))
            self.fire_due()
        CLOCK.now = max(CLOCK.now, end)
        self.procs.settle()

    def maybe_eintr(self, timeout, label):
        """Optionally interrupt a wait: advances the clock by part of the timeout and raises EINTR."""
        if self.eintr_budget <= 0:
            return
        opts = [None, 0.0, 0.5, 0.999]        # fraction of the timeout already elapsed when the signal lands
        c = self.ch.choose(len(opts), label + '-eintr')
        if c:
            self.eintr_budget -= 1
            if timeout:
                CLOCK.now += opts[c] * timeout
                self.fire_due()
            raise InterruptedError(errno.EINTR, 'Interrupted system call')


# ----------------------------------------------------------------------------
# Proxies
# ----------------------------------------------------------------------------
class OsProxy(object):
    def __getattr__(self, name):
        return getattr(_os, name)

    def read(self, fd, n):
        env = ENV
        b = getattr(_tls, 'baton', None)
        if b is not None:
            b.park(fd)
            return _os.read(fd, n)
        if env is None:
            return _os.read(fd, n)
        env.sched('read')
        hb = env.hbuf.get(fd)
        if hb is not None or fd in env.fds:
            def ready():
                if env.hbuf.get(fd):
                    return True
                p = _select.poll()
                p.register(fd, _select.POLLIN | _select.POLLHUP | _select.POLLERR)
                return bool(p.poll(0))
            if not ready():
                env.block_until(ready, None, 'read')
            hb = env.hbuf.get(fd)
        if hb:
            k = min(n, len(hb))
            if env.short_reads > 0 and k > 1:
                # environment answer: the kernel may return fewer bytes than are available
                if env.ch.choose(2, 'short-read'):
                    env.short_reads -= 1
                    k = max(1, k // 2)
            data = bytes(hb[:k])
            del hb[:k]
            return data
        return _os.read(fd, n)

    def write(self, fd, data):
        env = ENV
        if env is not None:
            env.sched('write')
        if env is not None and fd in env.write_cap:
            data = bytes(data)[:env.write_cap[fd]]       # a peer whose input queue takes only so much per write
        if env is not None and env.short_writes > 0 and len(data) > 1:
            # environment answer: the kernel took only part of the payload (a signal handler ran in the middle)
            if env.ch.choose(2, 'short-write'):
                env.short_writes -= 1
                env.short_writes_done += 1
                data = bytes(data)[:max(1, len(data) // 2)]
        if env is not None and fd in env.no_real_write:
            n = len(data)          # the peer is modelled from the transcript alone (no kernel echo, no line discipline)
        else:
            n = _os.write(fd, data)
        if env is not None:
            env.sent.setdefault(fd, bytearray()).extend(bytes(data)[:n])
            if env.pump is not None:
                env.pump()
        return n

    def close(self, fd):
        env = ENV
        if env is not None:
            env.sched('close')
            env.fds.discard(fd)
        return _os.close(fd)

    def waitpid(self, pid, options):
        env = ENV
        if pid >= FAKE_PID_BASE:
            if env is None:
                raise ChildProcessError(errno.ECHILD, 'No child processes')
            env.sched('waitpid')
            return env.procs.waitpid(pid, options)
        return _os.waitpid(pid, options)

    def kill(self, pid, sig):
        env = ENV
        if pid >= FAKE_PID_BASE:
            if env is None:
                raise ProcessLookupError(errno.ESRCH, 'No such process')
            env.sched('kill')
            return env.procs.kill(pid, sig)
        return _os.kill(pid, sig)


class PollerProxy(object):
    def __init__(self):
        self.p = _select.poll()
        self.fdset = []

    def register(self, fd, mask=_select.POLLIN | _select.POLLPRI | _select.POLLOUT):
        self.fdset.append(fd)
        return self.p.register(fd, mask)

    def unregister(self, fd):
        return self.p.unregister(fd)

    def _poll0(self, env):
        r = self.p.poll(0)
        seen = dict(r)
        for fd in self.fdset:
            if env.readable(fd):
                seen[fd] = seen.get(fd, 0) | _select.POLLIN
        return list(seen.items())

    def modify(self, fd, mask):
        return self.p.modify(fd, mask)

    def poll(self, timeout_ms=None):
        env = ENV
        if env is None:
            return self.p.poll(timeout_ms)
        env.sched('poll')
        t = None if (timeout_ms is None or timeout_ms < 0) else timeout_ms / 1000.0
        env.maybe_eintr(t, 'poll')
        r = self._poll0(env)
        if r or t == 0:
            return r
        box = []

        def ready():
            x = self._poll0(env)
            if x:
                box[:] = x
            return bool(x)
        env.block_until(ready, t, 'poll')
        return list(box)


class SelectProxy(object):
    error = _select.error

    def __getattr__(self, name):
        return getattr(_select, name)

    def poll(self):
        return PollerProxy()

    def select(self, r, w, x, timeout=None):
        env = ENV
        if env is None:
            return _select.select(r, w, x, timeout)
        env.sched('select')
        env.maybe_eintr(timeout, 'select')

        def sel0():
            a, b, c = _select.select(r, w, x, 0)
            for fd in r:
                if fd not in a and env.readable(fd if isinstance(fd, int) else fd.fileno()):
                    a = a + [fd]
            return a, b, c
        res = sel0()
        if any(res) or timeout == 0:
            return res
        box = [res]

        def ready():
            q = sel0()
            if any(q):
                box[0] = q
                return True
            return False
        env.block_until(ready, timeout, 'select')
        return box[0]


class SocketProxy(object):
    """Wraps a real socket; recv honours the (virtual) timeout set by settimeout."""

    def __init__(self, sock):
        self._s = sock
        self._timeout = sock.gettimeout()
        self.timeout_log = []

    def __getattr__(self, name):
        return getattr(self._s, name)

    def fileno(self):
        return self._s.fileno()

    def gettimeout(self):
        return self._timeout

    def settimeout(self, t):
        if t is not None and t < 0:
            raise ValueError('Timeout value out of range')
        self._timeout = t
        self.timeout_log.append(t)

    def recv(self, n, *a):
        env = ENV
        s = self._s
        if env is None:
            return s.recv(n, *a)
        env.sched('recv')
        fd = s.fileno()

        def ready():
            return bool(_select.select([fd], [], [], 0)[0])
        if not ready():
            t = self._timeout
            if t == 0:
                raise BlockingIOError(errno.EAGAIN, 'Resource temporarily unavailable')
            if not env.block_until(ready, t, 'recv'):
                raise _socket.timeout('timed out')
        return s.recv(n, *a)

    def sendall(self, data):
        env = ENV
        if env is not None:
            env.sched('sendall')
        # the timeout the library left on the socket governs the owner's (and the library's own) sends too:
        # carry the virtual setting over to the real socket for the duration of the call
        real = self._s.gettimeout()
        if self._timeout == real:
            return self._s.sendall(data)
        self._s.settimeout(self._timeout)
        try:
            return self._s.sendall(data)
        finally:
            self._s.settimeout(real)

    def close(self):
        return self._s.close()

    def shutdown(self, how):
        return self._s.shutdown(how)

    def __repr__(self):
        return '<SocketProxy fd=%d>' % self._s.fileno()


OSP = OsProxy()
SELP = SelectProxy()
_installed = False


def install():
    """Replace os/time/select names inside the library modules (idempotent)."""
    global _installed
    if _installed:
        return
    import pexpect
    import pexpect.expect
    import pexpect.spawnbase
    import pexpect.pty_spawn
    import pexpect.fdpexpect
    import pexpect.popen_spawn
    import pexpect.utils
    import pexpect.pxssh
    import pexpect.socket_pexpect
    import ptyprocess.ptyprocess
    CLOCK.virtual = ENV is not None
    pexpect.expect.time = CLOCK
    pexpect.spawnbase.os = OSP
    pexpect.pty_spawn.os = OSP
    pexpect.pty_spawn.time = CLOCK
    pexpect.fdpexpect.os = OSP
    pexpect.utils.select = SELP
    pexpect.utils.time = CLOCK
    pexpect.popen_spawn.os = OSP
    pexpect.popen_spawn.time = CLOCK
    pexpect.pxssh.time = CLOCK
    ptyprocess.ptyprocess.os = OSP
    ptyprocess.ptyprocess.time = CLOCK
    _installed = True


# ----------------------------------------------------------------------------
# Transports
# ----------------------------------------------------------------------------
def harness_spawn_class():
    import pexpect
    import ptyprocess

    class HarnessSpawn(pexpect.spawn):
        """pexpect.spawn through its own seam _spawnpty(): no fork; the child side of a
        real pty is held by the harness and the pid is a ProcSim process."""
        _hs_env = None
        _hs_kw = None

        def _spawnpty(self, args, **kwargs):
            env = ENV
            kw = type(self)._hs_kw or {}
            m, s = env.openpty(raw=kw.get('raw', True), echo=kw.get('echo', False))
            proc = env.procs.new(ignore=kw.get('ignore', ()), stopped=kw.get('stopped', False))
            self.hs_master, self.hs_slave, self.hs_proc = m, s, proc
            self.hs_spawn_args = (args, kwargs)

            def on_death(p, slave=s):
                env.peer_close(slave)
            proc.on_death = on_death
            pp = ptyprocess.PtyProcess(proc.pid, m)
            env.fds.discard(m)          # from now on the library owns the master
            self.hs_env = env
            env.hs_spawns.append([_weakref.ref(self), proc, m, False])
            cb = getattr(env, 'on_spawn', None)
            if cb is not None:
                cb(self)
            return pp
    return HarnessSpawn


_HS = None


def hs_class(spawn_kw=None):
    global _HS
    if _HS is None:
        _HS = harness_spawn_class()
    _HS._hs_kw = spawn_kw or {}
    return _HS


def pty_spawn(env, command='/bin/true', spawn_kw=None, **kw):
    """Create a pexpect.spawn on a harness-owned pty.  spawn_kw: raw/echo/ignore/stopped."""
    global _HS
    if _HS is None:
        _HS = harness_spawn_class()
    _HS._hs_kw = spawn_kw or {}
    sp = _HS(command, **kw)
    sp.delaybeforesend = None
    return sp


def finalize_pty(sp):
    """Neutralise the object so that garbage collection does not touch the (gone) environment."""
    try:
        pp = sp.ptyproc
        if not pp.closed:
            try:
                pp.fileobj.close()
            except Exception:
                pass
        pp.closed = True
        pp.terminated = True
        pp.fd = -1
    except Exception:
        pass


# ----------------------------------------------------------------------------
# PopenSpawn: fake Popen on real pipes + cooperative (baton) reader thread
# ----------------------------------------------------------------------------
import io as _io
import threading as _threading
import subprocess as _subprocess

_tls = _threading.local()


class BatonThread(object):
    """Stands in for threading.Thread inside pexpect.popen_spawn: the library's own
    _read_incoming runs unmodified in a real thread, but is parked inside its (proxied)
    os.read until the scheduler grants one step = one os.read + the following Queue.put."""

    def __init__(self, group=None, target=None, name=None, args=(), kwargs=None):
        self.target, self.args, self.kwargs = target, args, kwargs or {}
        self.daemon = True
        self.go = _threading.Semaphore(0)
        self.parked = _threading.Semaphore(0)
        self.done = False
        self.fd = None
        self.steps = 0

    def start(self):
        env = ENV
        env.baton = self
        self.t = _threading.Thread(target=self._run)
        self.t.daemon = True
        self.t.start()
        self.parked.acquire()

    def _run(self):
        _tls.baton = self
        try:
            self.target(*self.args, **self.kwargs)
        finally:
            self.done = True
            self.parked.release()

    def park(self, fd):
        self.fd = fd
        self.parked.release()
        self.go.acquire()

    def enabled(self):
        if self.done or self.fd is None:
            return False
        p = _select.poll()
        p.register(self.fd, _select.POLLIN | _select.POLLHUP | _select.POLLERR)
        return bool(p.poll(0))

    def step(self):
        self.steps += 1
        self.go.release()
        self.parked.acquire()

    def is_alive(self):
        return not self.done

    def join(self, timeout=None):
        pass


class ThreadingProxy(object):
    Thread = BatonThread

    def __getattr__(self, name):
        return getattr(_threading, name)


class ShortWriteFile(_io.FileIO):
    """The unbuffered stdin pipe of the fake Popen (what subprocess gives with bufsize=0); a write may be short when
    the environment says so.  A real FileIO subclass, so that inherited methods (writelines) go through write() too."""

    def __init__(self, env, fd):
        _io.FileIO.__init__(self, fd, 'wb', closefd=True)
        self._env = env

    def write(self, data):
        env = self._env
        if env.short_writes > 0 and len(data) > 1 and ENV is env:
            if env.ch.choose(2, 'short-write'):
                env.short_writes -= 1
                env.short_writes_done += 1
                data = bytes(data)[:max(1, len(data) // 2)]
        return _io.FileIO.write(self, data)


class FakePopen(object):
    def __init__(self, env, cmd, kw):
        self.args = cmd
        self.kw = kw
        r_out, w_out = env.pipe()
        r_in, w_in = env.pipe()
        self.peer_out = w_out          # the fake child writes here
        self.peer_in = r_in            # ... and reads the library's sends here
        env.fds.discard(r_out)
        env.fds.discard(w_in)
        self.stdout = _io.open(r_out, 'rb', buffering=0)
        self.stdin = ShortWriteFile(env, w_in)
        self.proc = env.procs.new()
        self.pid = self.proc.pid
        self.returncode = None
        self.env = env
        env.popen = self

        def on_death(p):
            env.peer_close(w_out)
        self.proc.on_death = on_death

    def poll(self):
        if self.returncode is None:
            try:
                pid, st = self.env.procs.waitpid(self.pid, _os.WNOHANG)
            except ChildProcessError:
                return self.returncode
            if pid:
                self._set(st)
        return self.returncode

    def _set(self, st):
        if st & 0x7f:
            self.returncode = -(st & 0x7f)
        else:
            self.returncode = st >> 8

    def wait(self, timeout=None):
        if self.returncode is None:
            self.env.sched('popen-wait')
            pid, st = self.env.procs.waitpid(self.pid, 0)
            self._set(st)
        return self.returncode

    def kill(self):
        self.env.procs.kill(self.pid, signal.SIGKILL)


class SubprocessProxy(object):
    def __getattr__(self, name):
        return getattr(_subprocess, name)

    def Popen(self, cmd, **kw):
        return FakePopen(ENV, cmd, kw)


class PopenTime(object):
    """`time` inside pexpect.popen_spawn: each clock read in the queue polling loop is a
    scheduling point (reader-thread steps and peer actions may happen between two gets)."""

    def __getattr__(self, name):
        return getattr(CLOCK, name)

    def time(self):
        env = ENV
        if env is not None and env.popen_time_sched and env.popen_dirty:
            # only the first clock read after a Queue operation of the main thread is a
            # scheduling point (nothing shared is touched between two clock reads otherwise)
            env.popen_dirty = False
            env.sched('popen-clock')
        return CLOCK.time()


def install_popen():
    import pexpect.popen_spawn as ps
    ps.threading = ThreadingProxy()
    ps.subprocess = SubprocessProxy()
    ps.time = PopenTime()


def finish_popen(env):
    """Let the parked reader thread run to completion (close the child's stdout first)."""
    b = getattr(env, 'baton', None)
    pp = getattr(env, 'popen', None)
    if pp is not None:
        env.peer_close(pp.peer_out)
    if b is not None:
        guard = 0
        while not b.done and guard < 100000:
            guard += 1
            b.step()
    if pp is not None:
        for f in (pp.stdout, pp.stdin):
            try:
                f.close()
            except Exception:
                pass
