"""C03 -- no missed or late match: product of the real incremental search with
the naive reference ("after each read, search all pending text, or its last W
characters"), explored by the same explicit-state BFS as C01 (states include the
trimmed search buffer left behind by earlier calls; W and the pattern list
change between calls)."""
import re

from pexpect import EOF, TIMEOUT

from mc import c01_conservation as c01
from mc import refs

PROPERTY = 'C03'
RULE = ('explicit-state BFS to fix-point; case = one transition (state incl. trimmed search buffer, '
        'call with its own W and pattern list, answer sequence); judged against the naive reference '
        'run in lock-step on the same answers; non-trivial = text was pending or received')
ASSUMPTIONS = ['alphabet / stream length bounded as in bounds; chunks of 1..2 characters (1..3 in the maxchunk=3 tasks), one empty read per call, and a one-character chunk that arrives as the deadline passes',
               'W in {None,1,2,3,4,L+1} per call']
STATES_MEANING = 'distinct canonical product states (implementation buffers x reference pending text x budget), deduplicated, summed over tasks'
REQUIRED_FLAGS = {'boundary_inside_match': 1, 'timeout_between_calls': 1, 'window_trim': 1,
                  'naive_match_outside_window_skipped': 1, 'match_on_existing': 1, 'match_after_read': 1}


def bounds(tier):
    return {'tasks': tasks(tier)}


def tasks(tier):
    q = tier == 'quick'
    t = [dict(mode='bytes', inst_sw=None, menu='c03', sigma='ab', L=4 if q else 6),
         dict(mode='utf-8', inst_sw=None, menu='c03', sigma='ab', L=4 if q else 5),
         dict(mode='bytes', inst_sw=2, menu='c03', sigma='ab', L=4 if q else 5),
         dict(mode='bytes', inst_sw=None, menu='c03nl', sigma='ab\n', L=3 if q else 5),
         dict(mode='bytes', inst_sw=None, menu='c03x', sigma='ab', L=4 if q else 6),
         dict(mode='bytes', inst_sw=None, menu='c03r', sigma='ab', L=4 if q else 6),
         # reads of up to three characters: a chunk longer than the longest listed string that completes
         # an occurrence begun in the text already pending; with maxread=3 such a chunk is also a *full* read
         # (the child is in the middle of a burst), the other task leaves maxread at its default
         dict(mode='bytes', inst_sw=None, menu='c03x', sigma='ab', L=4 if q else 5, maxchunk=3, maxread=3),
         dict(mode='utf-8', inst_sw=None, menu='c03r', sigma='ab', L=4 if q else 5, maxchunk=3)]
    if not q:
        t += [dict(mode='bytes', inst_sw=None, menu='c03x', sigma='ab', L=7),
              dict(mode='bytes', inst_sw=None, menu='c03r', sigma='ab', L=7),
              dict(mode='utf-8', inst_sw=3, menu='c03', sigma='ab', L=5),
              dict(mode='utf-8', inst_sw=None, menu='c03nl', sigma='a\n', L=6)]
    return t


def menu(name, L):
    c = []
    WS = (-1, None, 1, 2, 3, 4, L + 1)
    if name in ('c03', 'c03x'):
        for p in (('ab',), ('aba',), ('b', 'abab'), ('abab',)):
            for sw in WS:
                c.append(('exact', p, sw, 5))
        c += [('exact', ('ab', 'TIMEOUT'), 2, 0), ('exact', ('aba', 'TIMEOUT'), -1, 0),
              ('exact', ('abab', 'TIMEOUT'), 1, 5)]
    if name in ('c03', 'c03r'):
        for p in (('ab',), ('aba',), ('b', 'abab'), ('abab',)):
            for sw in WS:
                c.append(('expect', p, sw, 5))
        c += [('expect', ('ab', 'TIMEOUT'), 2, 0), ('expect', ('aba', 'TIMEOUT'), -1, 0),
              ('list', ('abab', 'TIMEOUT'), 1, 5)]
    if name == 'c03x':
        c += [('expect', ('aba',), 2, 5), ('expect', ('ab',), -1, 5), ('setsw', 2), ('setsw', None), ('setbuf', 'b'), ('setbuf', 'cur+a')]
    if name == 'c03r':
        c += [('exact', ('aba',), 2, 5), ('exact', ('ab',), -1, 5), ('setsw', 3), ('setsw', None), ('setbuf', 'b'), ('setbuf', 'cur+a')]
    if name == 'c03nl':
        for p in (('a$',), ('^b',), ('a\n',), ('a.b',)):
            for sw in (-1, 1, 2, 3):
                c.append(('expect', p, sw, 5))
        for p in (('a\n',), ('\nb', 'a')):
            for sw in (-1, 1, 2, 3):
                c.append(('exact', p, sw, 5))
        c += [('expect', ('a$', 'TIMEOUT'), 2, 0)]
    return c


class World(c01.World):
    def __init__(self, task):
        c01.World.__init__(self, task)
        self.calls = menu(task['menu'], task['L'])
        self._ref = {}

    def refpats(self, kind, names):
        out = []
        for n in names:
            if n in c01.MARK:
                out.append(c01.MARK[n])
            elif kind == 'exact':
                out.append(self.S(n))
            else:
                k = (n, self.enc)
                if k not in self._ref:
                    self._ref[k] = re.compile(self.S(n), re.DOTALL)
                out.append(self._ref[k])
        return out

    def do_call(self, sp, env, call, ch, flags=None):
        self.inst_sw_at_call = sp.searchwindowsize
        out, viol = c01.World.do_call(self, sp, env, call, ch, flags)
        if viol or call[0] not in ('expect', 'exact', 'list'):
            return out, viol
        kind = 'exact' if call[0] == 'exact' else 're'
        names, sw = call[1], call[2]
        W = self.inst_sw_at_call if sw == -1 else sw
        last = self.last
        answers = [a if (a is EOF or a is TIMEOUT) else (a if self.enc is None else a.decode(self.enc))
                   for a in last['answers']]
        ref = refs.naive_expect(kind, self.refpats(kind, names), last['P'], answers, W)
        n_ans = len(answers)
        empty = self.S('')
        if out == 'match':
            if ref['outcome'] != 'match':
                return out, ('spurious', 'implementation matched (before=%r after=%r) but the naive search '
                             'of %r with W=%r finds nothing' % (sp.before, sp.after, last['P'] + last['D'], W))
            if ref['consumed'] < n_ans:
                return out, ('late', 'naive search matches after %d reads, implementation after %d; P=%r answers=%r W=%r'
                             % (ref['consumed'], n_ans, last['P'], answers, W))
            got = (last['ret'], sp.before, sp.after, sp.buffer)
            want = (ref['index'], ref['before'], ref['after'], ref['rest'])
            if got != want:
                return out, ('differs', 'implementation (idx,before,after,buffer)=%r naive=%r; P=%r answers=%r W=%r'
                             % (got, want, last['P'], answers, W))
            if flags is not None:
                flags['match_on_existing' if n_ans == 0 else 'match_after_read'] += 1
        else:
            if ref['outcome'] == 'match':
                return out, ('missed', 'naive search matches %r after %d reads (before=%r) but implementation '
                             'reported %s after %d; P=%r answers=%r W=%r'
                             % (ref['after'], ref['consumed'], ref['before'], out, n_ans, last['P'], answers, W))
            if ref['outcome'] != out:
                return out, ('outcome', 'implementation %s, naive %s' % (out, ref['outcome']))
            if sp.before != ref['before']:
                return out, ('before', '%s: before=%r naive %r' % (out, sp.before, ref['before']))
            if flags is not None and W:
                full = refs.naive_search(kind, self.refpats(kind, names), last['P'] + last['D'], None)
                if full is not None:
                    flags['naive_match_outside_window_skipped'] += 1
        return out, None


def run_task(task):
    return c01.run_task(task, World)


def replay(spec):
    return c01.replay(spec, World)
