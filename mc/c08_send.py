"""C08 -- send fidelity.  Complete enumeration of send-family call sequences x
payload pool x mode x transport; the harness is the raw-mode peer and records
exactly what it receives."""
import codecs
import itertools
import os
import termios

import pexpect

from mc import env as E
from mc import transports as TR
from mc.explore import Chooser, Cut, dfs
from mc.runner import Acc

PROPERTY = 'C08'
RULE = ('case = (sequence of send-family calls with payloads, mode, transport); every case executed once; non-trivial = '
        'the sequence contains a non-ASCII / binary / empty / large payload, a line separator or a control character')
ASSUMPTIONS = ['pty slave in raw mode (no tty processing), so the received bytes are exactly the written bytes',
               'payloads above the kernel buffer are drained by a free-running reader thread (only the total is compared)',
               'short writes are not injected: blocking pty/pipe/socket writes complete on Linux']
REQUIRED_FLAGS = {'all_bytes': 1, 'non_ascii_text': 1, 'text_in_bytes_mode': 1, 'large': 1, 'control': 1, 'stateful_bom': 1,
                  'linesep_changed_between_sendlines': 1, 'two_short_writes': 1, 'length_sweep': 1}

BIG = 300000
CONTROL = list('abcdefghijklmnopqrstuvwxyz') + list('ABZ') + ['@', '`', '[', '{', '\\', '|', ']', '}', '^', '~', '_', '?']


def ctrl_byte(c):
    c = c.lower()
    if 'a' <= c <= 'z':
        return bytes([ord(c) - 96])
    return bytes([{'@': 0, '`': 0, '[': 27, '{': 27, '\\': 28, '|': 28, ']': 29, '}': 29, '^': 30, '~': 30, '_': 31, '?': 127}[c]])


def payloads(mode):
    if mode == 'bytes':
        return [('empty', b''), ('a', b'a'), ('all256', bytes(range(256))), ('text', 'é€\U0001d11e'), ('nl', b'x\ny\r\n')]
    if mode == 'utf-16':
        return [('empty', ''), ('a', 'a'), ('text', 'é\U0001d11e')]
    if mode == 'latin-1':
        return [('empty', ''), ('a', 'a'), ('text', 'é\xff'), ('nl', 'x\n')]
    return [('empty', ''), ('a', 'a'), ('text', 'é€\U0001d11e'), ('nl', 'x\ny\r\n')]


def bounds(tier):
    return dict(ops=['send', 'sendline', 'write', 'writelines', 'sendcontrol', 'sendeof', 'sendintr'], max_len=2 if tier == 'quick' else 3,
                modes=['bytes', 'utf-8', 'latin-1', 'utf-16'], transports=TR.NAMES, control_names=len(CONTROL), big=BIG)


def tasks(tier):
    out = []
    for tr in TR.NAMES:
        for mode in ('bytes', 'utf-8', 'latin-1', 'utf-16'):
            out.append(dict(kind='seq', transport=tr, mode=mode, tier=tier))
        out.append(dict(kind='big', transport=tr, tier=tier))
    for tr in ('pty-select', 'pty-poll'):
        out.append(dict(kind='control', transport=tr, tier=tier))
    # the separator in force at the time of each sendline(): `linesep` is a public, assignable attribute
    for tr in TR.NAMES:
        out.append(dict(kind='linesep', transport=tr, tier=tier))
    # environment answer "the OS took only part of the payload" (deviation bound 2 per execution)
    for tr in ('pty-select', 'fd-select', 'popen'):
        out.append(dict(kind='short-write', transport=tr, tier=tier))
    # payload lengths on and around every chunk-size boundary
    for tr in TR.NAMES:
        if tr.endswith('-poll'):
            continue
        for part in range(2):
            out.append(dict(kind='sizes', transport=tr, tier=tier, part=part, parts=2))
    return out


def op_menu(task):
    pl = payloads(task['mode'])
    ops = []
    for name, p in pl:
        ops.append(('send', name))
        ops.append(('sendline', name))
        ops.append(('write', name))
    for (n1, _), (n2, _) in itertools.product(pl[:3], repeat=2):
        ops.append(('writelines', n1, n2))
    # the sequence given as a one-shot iterable / a tuple instead of a list
    ops.append(('writelines_iter', 'a', 'text'))
    ops.append(('writelines_iter', 'empty', 'a'))
    ops.append(('writelines_tuple', 'a', 'text'))
    if task['transport'].startswith('pty'):
        ops += [('sendcontrol', 'c'), ('sendeof',), ('sendintr',)]
        ops.append(('sendline0',))
    if task['transport'] == 'popen':
        ops.append(('sendline0',))
    return ops


def run_seq(task, seq, mode, big=False, ch=None, payload=None):
    env = E.Env(ch if ch is not None else Chooser(()))
    env.short_writes = 2 if ch is not None else 0
    link = None
    viol = None
    obs = {}
    try:
        enc = None if mode == 'bytes' else mode
        link = TR.Link(env, task['transport'], timeout=5, encoding=enc)
        sp = link.sp
        if big and link.sock is not None:
            # a socket with its own timeout set (not plain blocking): a single send() may then be partial
            link.sock._s.settimeout(30.0)
            link.sock.settimeout(30.0)
        drain = TR.Drain(link, delay=0.15 if any(o[0] == 'rtimeout' for o in seq) else 0) if big else None
        pl = dict(payloads(mode)) if not big else {}
        nbig = BIG if task['transport'] in ('socket', 'fd-select', 'fd-poll') else BIG // 3
        pl['big'] = (bytes((i * 7 + 3) % 251 for i in range(nbig)) if mode == 'bytes'
                     else ''.join(chr(0x61 + (i % 26)) if i % 5 else '€' for i in range(nbig)))
        if payload is not None:
            pl['given'] = payload
        if ch is not None:
            pl['ten'] = b'abcdefghij' if mode == 'bytes' else 'abcdefgh\xe9'
        encoder = codecs.getincrementalencoder(enc)() if enc else None
        linesep = os.linesep

        def encode(x):
            if enc is None:
                return x if isinstance(x, bytes) else x.encode('utf-8')
            return encoder.encode(x)
        want = b''
        if task['transport'].startswith('pty'):
            cc = termios.tcgetattr(link.wfd)[6]
            veof, vintr = cc[termios.VEOF], cc[termios.VINTR]
        for op in seq:
            k = op[0]
            if k in ('send', 'sendline', 'write'):
                arg = pl[op[1]]
                ret = getattr(sp, k)(arg)
                piece = encode(arg)
                if k == 'sendline':
                    piece += encode(linesep if enc else (linesep.encode('ascii') if isinstance(arg, bytes) else linesep))
                want += piece
                if k == 'send' and ret != len(piece):
                    viol = ('send-return', 'send(%s) returned %r but wrote %d bytes' % (op[1], ret, len(piece)))
                    break
            elif k == 'linesep':
                linesep = op[1]
                sp.linesep = linesep if enc else linesep.encode('ascii')
            elif k == 'sendline0':
                sp.sendline()
                want += encode(linesep if enc else linesep.encode('ascii'))
            elif k in ('writelines', 'writelines_iter', 'writelines_tuple'):
                a, b = pl[op[1]], pl[op[2]]
                if type(a) is not type(b):
                    continue
                sp.writelines([a, b] if k == 'writelines' else (a, b) if k == 'writelines_tuple' else (x for x in (a, b)))
                want += encode(a) + encode(b)
            elif k == 'sendcontrol':
                sp.sendcontrol(op[1])
                want += ctrl_byte(op[1])
            elif k == 'sendeof':
                sp.sendeof()
                want += veof
            elif k == 'sendintr':
                sp.sendintr()
                want += vintr
            elif k == 'rtimeout':
                # a read that ends in TIMEOUT (the peer has sent nothing) before the next send: whatever the
                # failed read did to the transport (a socket's timeout, a descriptor's blocking mode) must be undone
                try:
                    # (PopenSpawn reports "nothing yet" as an empty string rather than TIMEOUT)
                    r = sp.read_nonblocking(1, timeout=op[1])
                    if r:
                        viol = ('phantom-read', 'read_nonblocking returned %r although the peer never wrote' % (r,))
                        break
                except pexpect.TIMEOUT:
                    pass
        if drain and viol is None:
            got = drain.finish()
        elif drain:
            got = b''
        else:
            got = link.received()
        obs = dict(got_len=len(got), want_len=len(want))
        if big and not got:
            import sys
            sys.stderr.write('DIAG %r %r fds=%r child_fd=%r\n' % (task, getattr(link, 'drain_why', None), sorted(env.fds), sp.child_fd))
        if viol is None and got != want:
            i = next((j for j in range(min(len(got), len(want))) if got[j] != want[j]), min(len(got), len(want)))
            viol = ('bytes', 'peer received %d bytes, expected %d; first difference at %d: got %r expected %r'
                    % (len(got), len(want), i, got[max(0, i - 4):i + 12], want[max(0, i - 4):i + 12]))
    except E.HarnessError:
        raise
    except Exception as e:
        viol = ('exception', 'raised %r' % (e,))
    finally:
        if big and link is not None and 'drain' in locals() and drain is not None:
            drain.abort()
        if link is not None:
            link.finish()
        else:
            env.finish()
    return obs, viol


SIZES = sorted(set(list(range(0, 70)) + [k * 256 + d for k in range(1, 41) for d in (-1, 0, 1)]
                   + [2 ** k + d for k in range(11, 18) for d in (-1, 0, 1)] + [1000 * k + d for k in range(1, 11) for d in (-1, 0, 1)]))


def big_verdict(viol, detail=True):
    """How much of an oversized payload gets through before the fault shows (and whether it shows as a short
    count, an error or missing bytes) depends on when the free-running draining peer runs; the verdict does not."""
    return ('incomplete', 'a payload larger than the kernel buffer was not delivered completely and in order, or '
            'send() did not report its length' + (' (one instance: %s: %s)' % (viol[0], viol[1][:160]) if detail else ''))


def run_task(task):
    acc = Acc()
    q = task['tier'] == 'quick'
    if task['kind'] == 'seq':
        mode = task['mode']
        ops = op_menu(task)
        maxlen = 2 if q else 3
        for n in range(1, maxlen + 1):
            pool = ops if n < 3 else [o for o in ops if not o[0].startswith('writelines') and (len(o) < 2 or o[1] in ('a', 'text', 'c'))]
            for seq in itertools.product(pool, repeat=n):
                obs, viol = run_seq(task, seq, mode)
                acc.execs += 1
                acc.transitions += n
                names = [x for o in seq for x in o[1:]]
                nt = any(x in ('all256', 'text', 'empty', 'nl') for x in names) or any(o[0] in ('sendline', 'sendcontrol', 'sendeof', 'sendintr') for o in seq)
                if nt:
                    acc.nontrivial += 1
                if 'all256' in names:
                    acc.flags['all_bytes'] += 1
                if 'text' in names:
                    acc.flags['non_ascii_text'] += 1
                    if mode == 'bytes':
                        acc.flags['text_in_bytes_mode'] += 1
                if mode == 'utf-16' and n >= 2:
                    acc.flags['stateful_bom'] += 1
                acc.outcomes['seq%d:%s' % (n, 'viol' if viol else 'ok')] += 1
                if viol:
                    acc.violation('%s:%s:%s:%s' % (task['transport'], mode, seq[-1][0], viol[0]),
                                  'sequence %r: %s' % (seq, viol[1]), dict(task=task, seq=[list(o) for o in seq]))
    elif task['kind'] == 'linesep':
        menu = [('sendline', 'a'), ('sendline', 'empty'), ('send', 'a'), ('linesep', '\r\n'), ('linesep', '\r')]
        for mode in ('bytes', 'utf-8'):
            for n in range(2, (3 if q else 4) + 1):
                for seq in itertools.product(menu, repeat=n):
                    if seq[-1][0] == 'linesep' or not any(o[0] == 'linesep' for o in seq):
                        continue
                    obs, viol = run_seq(dict(task, mode=mode), seq, mode)
                    acc.execs += 1
                    acc.transitions += n
                    acc.nontrivial += 1
                    first = next(i for i, o in enumerate(seq) if o[0] == 'linesep')
                    if any(o[0] == 'sendline' for o in seq[:first]) and any(o[0] == 'sendline' for o in seq[first:]):
                        acc.flags['linesep_changed_between_sendlines'] += 1
                    acc.outcomes['linesep:%s' % ('viol' if viol else 'ok')] += 1
                    if viol:
                        acc.violation('%s:%s:linesep:%s' % (task['transport'], mode, viol[0]), 'sequence %r: %s' % (seq, viol[1]),
                                      dict(task=task, seq=[list(o) for o in seq], mode=mode))
    elif task['kind'] == 'short-write':
        menu = [('send', 'ten'), ('sendline', 'ten'), ('write', 'ten'), ('writelines', 'ten', 'ten')]
        for mode in ('bytes', 'utf-8'):
            for n in (1, 2):
                for seq in itertools.product(menu, repeat=n):
                    def run(ch, seq=seq, mode=mode):
                        return run_seq(dict(task, mode=mode), seq, mode, ch=ch)
                    for ch, (obs, viol) in dfs(run, bound=2):
                        acc.execs += 1
                        acc.transitions += n
                        if ch.deviations():
                            acc.nontrivial += 1
                            acc.flags['short_write'] += 1
                            if ch.deviations() >= 2:
                                acc.flags['two_short_writes'] += 1
                        acc.outcomes['short-write:%s' % ('viol' if viol else 'ok')] += 1
                        if viol:
                            acc.violation('%s:%s:short-write:%s:%s' % (task['transport'], mode, seq[-1][0], viol[0]),
                                          'sequence %r with short OS writes (choices %r): %s' % (seq, ch.choices(), viol[1]),
                                          dict(task=task, seq=[list(o) for o in seq], mode=mode, choices=list(ch.choices())))
    elif task['kind'] == 'sizes':
        for i, n in enumerate(SIZES):
            if i % task['parts'] != task['part']:
                continue
            for mode in ('bytes', 'utf-8'):
                if mode == 'bytes':
                    payload = bytes((j * 7 + 3) % 251 for j in range(n))
                else:
                    # n encoded bytes, at least one two-byte character when there is room
                    payload = ('\xe9' + 'a' * (n - 2)) if n >= 2 else 'a' * n
                for seq in ([('send', 'given')], [('sendline', 'given')]):
                    obs, viol = run_seq(dict(task, mode=mode), seq, mode, big=n >= 2048, payload=payload)
                    acc.execs += 1
                    acc.transitions += 1
                    acc.nontrivial += 1
                    acc.flags['length_sweep'] += 1
                    acc.outcomes['sizes:%s' % ('viol' if viol else 'ok')] += 1
                    if viol:
                        if n >= 2048:
                            viol = big_verdict(viol)
                        acc.violation('%s:%s:sizes:%s:%s' % (task['transport'], mode, seq[0][0], viol[0]),
                                      'payload of %d encoded bytes: %s' % (n, viol[1]),
                                      dict(task=task, seq=[list(o) for o in seq], mode=mode, size=n))
    elif task['kind'] == 'big':
        for mode in ('bytes', 'utf-8'):
            for seq in ([('send', 'big')], [('sendline', 'big')], [('send', 'big'), ('send', 'big')],
                        [('rtimeout', 0), ('send', 'big')], [('rtimeout', 0.05), ('send', 'big')]):
                if task['transport'] in ('fd-select', 'fd-poll', 'socket') and mode == 'bytes' and False:
                    continue
                obs, viol = run_seq(dict(task, mode=mode), seq, mode, big=True)
                acc.execs += 1
                acc.transitions += len(seq)
                acc.nontrivial += 1
                acc.flags['large'] += 1
                acc.outcomes['big:%s' % ('viol' if viol else 'ok')] += 1
                if viol:
                    viol = big_verdict(viol)
                    acc.violation('%s:%s:big:%s' % (task['transport'], mode, viol[0]), 'sequence %r: %s' % (seq, viol[1]),
                                  dict(task=task, seq=[list(o) for o in seq], mode=mode, big=True))
    else:
        for mode in ('bytes', 'utf-8'):
            for c in CONTROL:
                for pre in ((), (('send', 'a'),)):
                    seq = tuple(pre) + (('sendcontrol', c),)
                    obs, viol = run_seq(dict(task, mode=mode), seq, mode)
                    acc.execs += 1
                    acc.transitions += len(seq)
                    acc.nontrivial += 1
                    acc.flags['control'] += 1
                    acc.outcomes['control:%s' % ('viol' if viol else 'ok')] += 1
                    if viol:
                        acc.violation('%s:%s:sendcontrol(%s):%s' % (task['transport'], mode, c, viol[0]), viol[1],
                                      dict(task=task, seq=[list(o) for o in seq], mode=mode))
    acc.states += 1
    acc.sample(dict(task=task, seq=[['sendline', 'text'], ['send', 'all256'], ['sendeof']]))
    return acc


def replay(spec):
    from mc.explore import unjson
    spec = unjson(spec)
    task = spec['task']
    mode = spec.get('mode') or task['mode']
    seq = [tuple(o) for o in spec['seq']]
    if task['kind'] == 'short-write':
        obs, viol = run_seq(dict(task, mode=mode), seq, mode, ch=Chooser(spec['choices']))
        out = {'observation': obs, 'violation': None}
        if viol:
            out['violation'] = {'key': '%s:%s:short-write:%s:%s' % (task['transport'], mode, seq[-1][0], viol[0]), 'msg': viol[1]}
        return out
    if task['kind'] == 'sizes':
        n = spec['size']
        payload = bytes((j * 7 + 3) % 251 for j in range(n)) if mode == 'bytes' else (('\xe9' + 'a' * (n - 2)) if n >= 2 else 'a' * n)
        obs, viol = run_seq(dict(task, mode=mode), seq, mode, big=n >= 2048, payload=payload)
        out = {'observation': {'want_len': obs.get('want_len')}, 'violation': None, '_timing': {'observation': obs, 'detail': viol}}
        if viol:
            if n >= 2048:
                viol = big_verdict(viol, detail=False)
            out['violation'] = {'key': '%s:%s:sizes:%s:%s' % (task['transport'], mode, seq[0][0], viol[0]),
                                'msg': viol[1] if n >= 2048 else 'payload of %d encoded bytes: %s' % (n, viol[1])}
        return out
    obs, viol = run_seq(dict(task, mode=mode), seq, mode, big=spec.get('big', False))
    out = {'observation': obs, 'violation': None}
    if spec.get('big'):
        out = {'observation': {'want_len': obs.get('want_len')}, 'violation': None, '_timing': {'observation': obs, 'detail': viol}}
        if viol:
            viol = big_verdict(viol, detail=False)
    if viol:
        if spec.get('big'):
            key = '%s:%s:big:%s' % (task['transport'], mode, viol[0])
        elif task['kind'] == 'linesep':
            key = '%s:%s:linesep:%s' % (task['transport'], mode, viol[0])
        elif task['kind'] == 'control':
            key = '%s:%s:sendcontrol(%s):%s' % (task['transport'], mode, seq[-1][1], viol[0])
        else:
            key = '%s:%s:%s:%s' % (task['transport'], mode, seq[-1][0], viol[0])
        out['violation'] = {'key': key, 'msg': viol[1]}
    return out
