"""C18 -- ANSI emulator: total, shape preserving, chunk independent.

(a) Explicit-state BFS from the initial terminal over a token alphabet that
    contains every final the FSM knows with parameters from {omitted, 0, 1,
    size, size+1, 99999}, unknown finals, control characters and every proper
    prefix of a sequence followed by a printable / CR / ESC.  Invariants in
    every state: no exception, grid exactly rows x cols single characters,
    cursor on screen, after a completed token the parser is back in INIT with
    an empty parameter stack.
(b) Chunk independence: for every token path (all pairs / triples and every
    BFS-tree path) the concatenated input is re-fed to a fresh terminal under
    every set of <= k cut points, as str, as latin-1 bytes and as utf-8 bytes
    (cuts inside multi-byte characters), and must give the same screen, cursor,
    region, parser state.
"""
import collections
import itertools
import os

from mc.runner import Acc

PROPERTY = 'C18'
RULE = ('(a) explicit-state BFS, case = (terminal state, token); non-trivial = token is an escape sequence or control '
        'character or it changed the state.  (b) case = (token path, cut set, input type); non-trivial = a cut falls '
        'inside an escape sequence or inside a multi-byte character')
ASSUMPTIONS = ['token alphabet as listed in bounds; screens up to 3x4; "randomly on larger screens" is sampling and deliberately not done',
               'the emulator appends to ./log on unknown sequences: the check runs in /verif/.scratch']
STATES_MEANING = 'distinct terminal states (grid, cursor, saved cursor, scroll region, FSM state, parameter stack, decoder state), deduplicated, summed over screens; plus one per chunk-independence partition'
REQUIRED_FLAGS = {'pieces_through_process_list': 1, 'malformed_or_other_multibyte_encoding': 1, 'two_terminals_interleaved': 1, 'cut_inside_escape': 1, 'cut_inside_multibyte': 1, 'degenerate_param': 1, 'truncated_sequence': 1,
                  'unknown_sequence': 1, 'scrolled': 1}

ESC = '\x1b'


def tokens_for(rows, cols):
    big = 99999
    pr = [0, 1, rows, rows + 1, big]
    pc = [0, 1, cols, cols + 1, big]
    t = []
    simple = ['a', 'b', '\r', '\n', '\x08', '\t', '\x00', '\x7f']
    t += simple
    for f in '78M><=Dc':
        t.append(ESC + f)
    t += [ESC + '#8', ESC + '#a', ESC + '(A', ESC + '(B', ESC + '(0', ESC + ')1', ESC + ')2', ESC + '(z', ESC + ')' + ESC]
    for f in 'HDBCAJKrm?sugz':
        if f == '?':
            continue
        t.append(ESC + '[' + f)
    for f in 'DBCA':
        for n in sorted(set(pr + pc)):
            t.append(ESC + '[%d%s' % (n, f))
    for f in 'JK':
        for n in (0, 1, 2, 3, big):
            t.append(ESC + '[%d%s' % (n, f))
    for f in 'lmqhHrz':
        for n in (0, 4, big):
            t.append(ESC + '[%d%s' % (n, f))
    for f in 'Hfr':
        for n in pr:
            for m in (pc if f != 'r' else pr):
                t.append(ESC + '[%d;%d%s' % (n, m, f))
    for f in 'mqzA':
        t.append(ESC + '[1;2' + f)
    for f in 'mqHz':
        t.append(ESC + '[1;2;3' + f)
        t.append(ESC + '[1;2;3;4' + f)
    t += [ESC + '[;5H', ESC + '[5;H', ESC + '[5;;H', ESC + '[1;2;H', ESC + '[?1h', ESC + '[?25l', ESC + '[?h',
          ESC + '[?1;2h', ESC + '[?1z', ESC + '[01;002H', ESC + '[00000r']
    # truncated: every proper prefix followed by a printable, CR or ESC-restart
    prefixes = [ESC, ESC + '[', ESC + '[5', ESC + '[5;', ESC + '[5;6', ESC + '[5;6;', ESC + '[5;6;7', ESC + '[?',
                ESC + '[?5', ESC + '(', ESC + ')', ESC + '#']
    for p in prefixes:
        for x in ('a', '\r', ESC + '7'):
            t.append(p + x)
    seen = set()
    out = []
    for x in t:
        if x not in seen:
            seen.add(x)
            out.append(x)
    return out


def snap_obj(t):
    try:
        g = tuple(''.join(r) for r in t.w)
    except TypeError:
        g = repr(t.w)
    mem = t.state.memory
    return (g, t.cur_r, t.cur_c, t.cur_saved_r, t.cur_saved_c, t.scroll_row_start, t.scroll_row_end,
            t.state.current_state, tuple(repr(x) for x in mem[1:]) if isinstance(mem, list) else repr(mem),
            t.decoder.getstate())


class Term(object):
    """One reusable real ANSI object per screen size; state is restored field by field."""

    def __init__(self, rows, cols, encoding='latin-1'):
        from pexpect import ANSI
        self.rows, self.cols = rows, cols
        self.t = ANSI.ANSI(rows, cols, encoding=encoding)
        self.extra_fields = sorted(k for k in vars(self.t) if k not in (
            'rows', 'cols', 'encoding', 'encoding_errors', 'decoder', 'cur_r', 'cur_c', 'cur_saved_r',
            'cur_saved_c', 'scroll_row_start', 'scroll_row_end', 'w', 'state'))

    def snap(self):
        return snap_obj(self.t)

    def restore(self, st):
        t = self.t
        g, t.cur_r, t.cur_c, t.cur_saved_r, t.cur_saved_c, t.scroll_row_start, t.scroll_row_end, cs, mem, dec = st
        t.w = [list(r) for r in g]
        t.state.current_state = cs
        t.state.memory = [t] + [eval(x) for x in mem]
        t.decoder.setstate(dec)

    def fresh(self):
        self.restore(self.init)

    def invariant(self, after_complete):
        t = self.t
        rows, cols = self.rows, self.cols
        if not (isinstance(t.w, list) and len(t.w) == rows and all(
                isinstance(r, list) and len(r) == cols and all(isinstance(x, str) and len(x) == 1 for x in r)
                for r in t.w)):
            return ('shape', 'grid is no longer %dx%d single characters: %r' % (rows, cols, t.w))
        if not (1 <= t.cur_r <= rows and 1 <= t.cur_c <= cols):
            return ('cursor', 'cursor (%r,%r) is off the %dx%d screen' % (t.cur_r, t.cur_c, rows, cols))
        if after_complete:
            if t.state.current_state != 'INIT' or t.state.memory != [t]:
                return ('residue', 'parser residue after a completed sequence: state %r stack %r'
                        % (t.state.current_state, t.state.memory[1:]))
        return None


def bounds(tier):
    return {'tasks': tasks(tier), 'tokens_2x2': len(tokens_for(2, 2))}


def tasks(tier):
    q = tier == 'quick'
    t = []
    for (r, c, d) in ((1, 1, None), (1, 3, None), (2, 2, None if not q else 3), (3, 2, 3 if not q else 2)):
        t.append(dict(kind='bfs', rows=r, cols=c, depth=d))
    if not q:
        t.append(dict(kind='bfs', rows=3, cols=4, depth=3))
        t.append(dict(kind='bfs', rows=2, cols=3, depth=4))
    # chunk independence, partitioned by first token index modulo
    parts = 8 if q else 24
    for i in range(parts):
        t.append(dict(kind='chunk', rows=2, cols=2, part=i, parts=parts, plen=2, cuts=1 if q else 2))
    if not q:
        for i in range(parts):
            t.append(dict(kind='chunk', rows=3, cols=2, part=i, parts=parts, plen=2, cuts=2))
        for i in range(48):
            t.append(dict(kind='chunk3', rows=2, cols=2, part=i, parts=48, plen=3, cuts=1))
    t.append(dict(kind='chunk-bytes', rows=2, cols=3, cuts=2 if q else 3))
    # two live terminals fed alternately: neither may see anything of the other's input
    for enc in ('utf-8', 'latin-1'):
        t.append(dict(kind='two', rows=2, cols=4, enc=enc))
    return t


def is_escape(tok):
    return tok[0] == ESC or ord(tok[0]) < 32 or tok[0] == '\x7f'


def run_bfs(task, acc):
    rows, cols = task['rows'], task['cols']
    term = Term(rows, cols)
    toks = tokens_for(rows, cols)
    init = term.snap()
    term.init = init
    parent = {init: None}
    frontier = [init]
    depth = 0
    flags = acc.flags
    cap = 400000
    while frontier and (task['depth'] is None or depth < task['depth']):
        nxt = []
        for st in frontier:
            for tok in toks:
                term.restore(st)
                acc.execs += 1
                acc.transitions += 1
                viol = None
                try:
                    term.t.write(tok)
                except Exception as e:
                    viol = ('raised', 'write(%r) raised %r' % (tok, e))
                if viol is None:
                    viol = term.invariant(True)
                ns = term.snap() if viol is None else None
                if is_escape(tok) or ns != st:
                    acc.nontrivial += 1
                if tok.startswith(ESC + '[') and ('99999' in tok or '[0' in tok or ';0' in tok):
                    flags['degenerate_param'] += 1
                acc.outcomes[('esc' if tok[0] == ESC else 'chr') + (':viol' if viol else ':ok')] += 1
                if viol:
                    acc.violation('bfs:%s:%s' % (viol[0], tokname(tok)), '%s (screen %dx%d)' % (viol[1], rows, cols),
                                  dict(task=task, path=path_to(parent, st) + [tok]))
                    continue
                if ns[0] != st[0] and tok in ('\n', ESC + 'M') :
                    flags['scrolled'] += 1
                if ns not in parent:
                    if len(parent) >= cap:
                        if not acc.caps:
                            acc.caps.append('state cap %d on %dx%d' % (cap, rows, cols))
                        continue
                    parent[ns] = (st, tok)
                    nxt.append(ns)
        frontier = nxt
        depth += 1
    flags['truncated_sequence'] += sum(1 for t in toks if t.endswith(('a', '\r', ESC + '7')) and t[0] == ESC and len(t) > 2)
    flags['unknown_sequence'] += sum(1 for t in toks if t.endswith('z'))
    acc.states += len(parent)
    acc.extra['bfs_depth_%dx%d' % (rows, cols)] = depth
    acc.extra['bfs_fixpoint_%dx%d' % (rows, cols)] = int(not frontier)
    acc.sample(dict(screen='%dx%d' % (rows, cols), path=[tokname(t) for t in path_to(parent, list(parent)[-1])]))
    # chunk independence of every BFS-tree path on this screen (<= 2 cuts)
    if rows * cols <= 4:
        for st in parent:
            p = path_to(parent, st)
            if 2 <= len(p) <= 6:
                chunk_check(term, p, 2, acc, task, 'str')


def tokname(t):
    return t.replace(ESC, 'ESC').replace('\r', 'CR').replace('\n', 'LF').replace('\x08', 'BS') \
            .replace('\t', 'TAB').replace('\x00', 'NUL').replace('\x7f', 'DEL')


def path_to(parent, st):
    h = []
    while parent[st] is not None:
        st, tok = parent[st]
        h.append(tok)
    h.reverse()
    return h


FEED = {'mode': 'write'}      # 'write': every piece through write(); 'alt': pieces alternately through process_list() and write()


def feed(t, piece, i):
    if FEED['mode'] == 'alt' and i % 2 == 0:
        t.process_list(piece)        # documented as equivalent to write()
    else:
        t.write(piece)


def chunk_check(term, path, maxcuts, acc, task, how, enc=None):
    """Feed ''.join(path) at once, then under every cut set; compare."""
    if how == 'raw':
        text, data = None, b''.join(path)        # byte strings given as they are (possibly malformed for the encoding)
    else:
        text = ''.join(path)
        data = text if how == 'str' else text.encode(enc)
    term.fresh()
    try:
        term.t.write(data)
        whole = term.snap()
    except Exception as e:
        acc.violation('chunk:%s:raised' % how, 'write(%r) raised %r' % (data, e),
                      dict(task=task, path=path, how=how, enc=enc, cuts=[]))
        return
    n = len(data)
    # token boundaries (in units of data) to recognise cuts inside an escape sequence
    inner = set()
    pos = 0
    for tok in (path if how != 'raw' else []):
        ln = len(tok if how == 'str' else tok.encode(enc))
        if tok[0] == ESC:
            inner.update(range(pos + 1, pos + ln))
        pos += ln
    mb = set()
    if how == 'raw':
        mb.update(i for i in range(1, n) if data[i] >= 0x80 or data[i - 1] >= 0x80)
    elif how != 'str':
        pos = 0
        for ch in text:
            ln = len(ch.encode(enc))
            mb.update(range(pos + 1, pos + ln))
            pos += ln
    for k in range(1, maxcuts + 1):
        for cuts in itertools.combinations(range(1, n), k):
            term.fresh()
            acc.execs += 1
            acc.transitions += 1
            prev = 0
            try:
                for i_, c in enumerate(cuts + (n,)):
                    feed(term.t, data[prev:c], i_)
                    prev = c
                got = term.snap()
            except Exception as e:
                got = ('raised', repr(e))
            nt = False
            if any(c in inner for c in cuts):
                acc.flags['cut_inside_escape'] += 1
                nt = True
            if any(c in mb for c in cuts):
                acc.flags['cut_inside_multibyte'] += 1
                nt = True
            if nt:
                acc.nontrivial += 1
            if got != whole:
                acc.violation('chunk:%s:differs%s' % (how, ':process_list' if FEED['mode'] == 'alt' else ''),
                              'input %r fed at once gives %r, cut at %r gives %r' % (data, whole, cuts, got),
                              dict(task=task, path=path, how=how, enc=enc, cuts=list(cuts), feed=FEED['mode']))
                return
    acc.outcomes['chunk:%s:same' % how] += 1


def run_chunk(task, acc):
    rows, cols = task['rows'], task['cols']
    term = Term(rows, cols)
    term.init = term.snap()
    toks = tokens_for(rows, cols)
    plen = task['plen']
    for i, first in enumerate(toks):
        if i % task['parts'] != task['part']:
            continue
        if plen == 2:
            for second in toks:
                chunk_check(term, [first, second], task['cuts'], acc, task, 'str')
        else:
            # triples: the middle token ranges over escape sequences only (cuts inside matter there)
            mids = [t for t in toks if t[0] == ESC][::3]
            lasts = toks[::5]
            for second in mids:
                for third in lasts:
                    chunk_check(term, [first, second, third], task['cuts'], acc, task, 'str')
    acc.states += 1
    acc.sample(dict(kind='chunk', path=[tokname(toks[task['part']]), tokname(toks[-1])], cuts='all <= %d' % task['cuts']))


def run_chunk_bytes(task, acc):
    for mode in ('write', 'alt'):
        FEED['mode'] = mode
        try:
            _run_chunk_bytes(task, acc)
        finally:
            FEED['mode'] = 'write'
        acc.flags['pieces_through_process_list'] += 1


def _run_chunk_bytes(task, acc):
    rows, cols = task['rows'], task['cols']
    paths = [['\xe9', ESC + '[1;2H', '\xe9', 'a'], ['a', '\xe9', ESC + '[2J', '\xe9\xe9'],
             [ESC + '[2;1H', '\xe9', '\n', 'b'], ['\xe9' * 3, ESC + 'M', ESC + '[0;0r', '\n\n']]
    for enc, extra in (('latin-1', []), ('utf-8', [['€', ESC + '[1;1H', '€\xe9'], ['a€', ESC + '[K', '\U0001d11e']])):
        term = Term(rows, cols, encoding=enc)
        term.init = term.snap()
        for p in paths + extra:
            chunk_check(term, p, task['cuts'], acc, task, 'bytes', enc)
            chunk_check(term, p, min(2, task['cuts']), acc, task, 'str')
    # multi-byte encodings other than utf-8, and input that is malformed for the encoding (a truncated character
    # followed by plain ASCII, a stray continuation byte): every cut, compared with feeding at once
    for enc, raws in (('utf-8', [[b'ab\xe2\x82', b'xy'], [b'\xe9a', b'\x1b[1;1Hb'], [b'\xf0\x9f\x98A', b'\x80z']]),
                      ('shift_jis', [['a\u3042b\u30a2'.encode('shift_jis')], ['\u3042'.encode('shift_jis'), b'\x1b[1;2H', '\uff71\u3042'.encode('shift_jis')]]),
                      ('gbk', [['a\u4e2d\\b'.encode('gbk')]]),
                      ('utf-16', [['a\u20acb'.encode('utf-16')]])):
        term = Term(rows, cols, encoding=enc)
        term.init = term.snap()
        for p in raws:
            chunk_check(term, p, task['cuts'], acc, task, 'raw', enc)
            acc.flags['malformed_or_other_multibyte_encoding'] += 1
    acc.states += 1


TWO_POOL = ['\u20aca', 'hi\u2328', ESC + '[1;2H\xe9', 'xyz', ESC + '[2;', 'a\u20ac']


def two_inputs(enc):
    out = []
    for x in TWO_POOL:
        try:
            out.append(x.encode(enc))
        except UnicodeError:
            out.append(x.encode(enc, 'replace'))
    if enc == 'utf-8':
        out.append('hi\u2328'.encode(enc)[:-1])       # ends inside a character
    return out


def two_run(rows, cols, enc, a, ca, b, cb, order):
    """Two fresh terminals; a is fed to the first in the pieces a[:ca], a[ca:], b to the second likewise,
    in the given interleaving ('A'/'B' per step).  Returns the two snapshots."""
    from pexpect import ANSI
    t1 = ANSI.ANSI(rows, cols, encoding=enc)
    t2 = ANSI.ANSI(rows, cols, encoding=enc)
    pa, pb = [a[:ca], a[ca:]], [b[:cb], b[cb:]]
    for who in order:
        if who == 'A':
            t1.write(pa.pop(0))
        else:
            t2.write(pb.pop(0))
    return snap_obj(t1), snap_obj(t2)


def two_solo(rows, cols, enc, data):
    from pexpect import ANSI
    t = ANSI.ANSI(rows, cols, encoding=enc)
    t.write(data)
    return snap_obj(t)


TWO_ORDERS = ['AABB', 'ABAB', 'ABBA', 'BAAB', 'BABA', 'BBAA']


def run_two(task, acc):
    rows, cols, enc = task['rows'], task['cols'], task['enc']
    ins = two_inputs(enc)
    for a in ins:
        for b in ins:
            for ca in range(len(a) + 1):
                for cb in range(len(b) + 1):
                    for order in TWO_ORDERS:
                        acc.execs += 1
                        acc.transitions += 4
                        acc.nontrivial += 1
                        try:
                            got = two_run(rows, cols, enc, a, ca, b, cb, order)
                            want = (two_solo(rows, cols, enc, a), two_solo(rows, cols, enc, b))
                        except Exception as e:
                            got, want = ('raised', repr(e)), None
                        if order not in ('AABB', 'BBAA'):
                            acc.flags['two_terminals_interleaved'] += 1
                        ok = got == want
                        acc.outcomes['two:%s' % ('same' if ok else 'differs')] += 1
                        if not ok:
                            acc.violation('two:%s:differs' % enc,
                                          'two terminals fed %r (cut %d) and %r (cut %d) in order %s show %r; each alone shows %r'
                                          % (a, ca, b, cb, order, got, want),
                                          dict(task=task, two=[a, ca, b, cb, order]))
    acc.states += 1


def run_task(task):
    os.makedirs('/verif/.scratch', exist_ok=True)
    os.chdir('/verif/.scratch')
    acc = Acc()
    if task['kind'] == 'bfs':
        run_bfs(task, acc)
    elif task['kind'] in ('chunk', 'chunk3'):
        run_chunk(task, acc)
    elif task['kind'] == 'two':
        run_two(task, acc)
    else:
        run_chunk_bytes(task, acc)
    try:
        os.remove('/verif/.scratch/log')
    except OSError:
        pass
    return acc


def replay(spec):
    """Feeds the path to ONE fresh real ANSI object (no restore)."""
    from mc.explore import unjson
    from pexpect import ANSI
    spec = unjson(spec)
    os.makedirs('/verif/.scratch', exist_ok=True)
    os.chdir('/verif/.scratch')
    task = spec['task']
    rows, cols = task['rows'], task['cols']
    out = {'violation': None}
    if 'two' in spec:
        a, ca, b, cb, order = spec['two']
        enc = task['enc']
        try:
            got = two_run(rows, cols, enc, a, ca, b, cb, order)
            want = (two_solo(rows, cols, enc, a), two_solo(rows, cols, enc, b))
        except Exception as e:
            got, want = ('raised', repr(e)), None
        out['got'], out['want'] = repr(got), repr(want)
        if got != want:
            out['violation'] = {'key': 'two:%s:differs' % enc, 'msg': 'together %r, alone %r' % (got, want)}
        return out
    if 'how' not in spec:
        term = Term(rows, cols)
        last = None
        for tok in spec['path']:
            try:
                term.t.write(tok)
            except Exception as e:
                out['violation'] = {'key': 'bfs:raised:%s' % tokname(tok), 'msg': repr(e)}
                return out
            v = term.invariant(True)
            if v:
                out['violation'] = {'key': 'bfs:%s:%s' % (v[0], tokname(tok)), 'msg': v[1]}
                return out
        out['state'] = repr(term.snap())
        return out
    acc = Acc()
    term = Term(rows, cols, encoding=spec.get('enc') or 'latin-1')
    term.init = term.snap()
    if spec['how'] == 'raw':
        data = b''.join(spec['path'])
    else:
        text = ''.join(spec['path'])
        data = text if spec['how'] == 'str' else text.encode(spec['enc'])
    try:
        term.t.write(data)
        whole = term.snap()
    except Exception as e:
        out['violation'] = {'key': 'chunk:%s:raised' % spec['how'], 'msg': repr(e)}
        return out
    term.fresh()
    prev = 0
    FEED['mode'] = spec.get('feed', 'write')
    try:
        for i_, c in enumerate(list(spec['cuts']) + [len(data)]):
            feed(term.t, data[prev:c], i_)
            prev = c
        got = term.snap()
    except Exception as e:
        got = ('raised', repr(e))
    out['whole'] = repr(whole)
    out['cut'] = repr(got)
    if got != whole:
        out['violation'] = {'key': 'chunk:%s:differs%s' % (spec['how'], ':process_list' if FEED['mode'] == 'alt' else ''),
                            'msg': 'at once %r, cut %r' % (whole, got)}
    FEED['mode'] = 'write'
    return out
