"""Prints the markdown table of the seeded changes kept under /verif/seeded (for DESIGN.md)."""
import glob
import json
import os

ROOT = os.path.dirname(os.path.dirname(os.path.abspath(__file__)))


def main():
    print('| seed | property | needs, in order to manifest | caught by |')
    print('|---|---|---|---|')
    for d in sorted(glob.glob(os.path.join(ROOT, 'seeded', '*'))):
        m = json.load(open(os.path.join(d, 'meta.json')))
        print('| %s | %s | %s | %s |' % (m['id'], m['property'], m['needs_to_manifest'].replace('|', '/'), m['detected_by'].replace('|', '/')))


if __name__ == '__main__':
    main()
