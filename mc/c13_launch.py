"""C13 -- launch fidelity.  Three exhaustive tables.

(a) split_command_line: quote every argument list of a bounded space in each
    documented style, join with whitespace (+ leading/trailing), split, compare.
(b) which(): every PATH layout of <= 3 directories x entry kinds x env forms on a
    real scratch tree; expected answer known by construction.
(c) what the child really got: complete cross product of cwd/env/dimensions/
    echo/ignore_sighup/argv shapes with a real probe child (reads
    /proc/self/{cmdline,environ,status}, TIOCGWINSZ, termios).  Real time is
    only a liveness bound: no answer = inconclusive -> retried, never a verdict.
"""
import itertools
import json
import os
import shutil
import stat
import sys
import tempfile

from mc.runner import Acc

PROPERTY = 'C13'
RULE = ('complete tables; (a) case = (argument list, quoting style per argument, separator, leading/trailing blank); '
        'non-trivial = some argument contains a blank, quote or backslash; (b) case = (PATH layout, env form, name form); '
        'non-trivial = a non-executable / directory / dangling entry shadows or precedes the answer; (c) case = one real spawn')
ASSUMPTIONS = ['(a) arguments of 1..3 characters over {a, space, tab, \', ", \\, e-acute}; lists of 1, 2 and (sub-pool) 3 arguments',
               '(b)/(c) run as the current user (root: X_OK needs an x bit); (c) uses real processes and real time as a liveness bound only']
REQUIRED_FLAGS = {'has_special': 1, 'lead_or_trail': 1, 'shadowed': 1, 'probe_answered': 1, 'program_word_alone': 1,
                  'bare_name_env_without_path': 1, 'second_launch_differs_from_first': 1, 'preexec_fn_with_ignore_sighup': 1,
                  'answer_changes_between_lookups': 1}
ALPHA = ['a', ' ', '\t', "'", '"', '\\', '\xe9']


def bounds(tier):
    return dict(alphabet=ALPHA, arg_len=[1, 3], lists=['all singles', 'all pairs', 'triples over a 40-argument sub-pool (thorough)'],
                styles=['backslash every character', 'single quotes', 'double quotes'],
                separators=[' ', '\t', '  '], lead_trail=['', ' ', '\t '])


def all_args():
    out = []
    for n in (1, 2, 3):
        for t in itertools.product(ALPHA, repeat=n):
            out.append(''.join(t))
    return out


def styles_of(arg):
    s = [('bs', ''.join('\\' + c for c in arg))]
    if "'" not in arg:
        s.append(('sq', "'" + arg + "'"))
    if '"' not in arg:
        s.append(('dq', '"' + arg + '"'))
    return s


def tasks(tier):
    q = tier == 'quick'
    t = [dict(kind='split1')]
    n = 16 if q else 32
    for i in range(n):
        t.append(dict(kind='split2', part=i, parts=n, quick=q))
    if not q:
        for i in range(16):
            t.append(dict(kind='split3', part=i, parts=16))
    for envform in ('given', 'environ', 'nopath', 'emptypath', 'emptycomponent'):
        t.append(dict(kind='which', envform=envform))
    for i in range(4):
        t.append(dict(kind='which-history', part=i, parts=4))
    for i in range(8):
        t.append(dict(kind='child', part=i, parts=8, quick=q))
    # launches that depend on each other or on the program word itself: a quoted program path given as a bare
    # command line, every ordered pair of settings launched one after the other in one process, and a bare
    # command name with an env mapping that has no PATH
    t += [dict(kind='launch', sub='program-word', quick=q), dict(kind='launch', sub='env-no-path', quick=q)]
    for i in range(4):
        t.append(dict(kind='launch', sub='pairs', part=i, parts=4, quick=q))
    return t


def check_split(acc, args, quoted, sep, lead, trail, task):
    from pexpect.utils import split_command_line
    line = lead + sep.join(quoted) + trail
    acc.execs += 1
    acc.transitions += 1
    try:
        got = split_command_line(line)
    except Exception as e:
        got = 'raised %r' % e
    special = any(c in a for a in args for c in ' \t\'"\\')
    if special:
        acc.nontrivial += 1
        acc.flags['has_special'] += 1
    if lead or trail:
        acc.flags['lead_or_trail'] += 1
    if got != list(args):
        sym = 'lead' if lead else 'trail' if trail else 'plain'
        acc.violation('split:%s' % sym, 'split_command_line(%r) = %r, expected %r' % (line, got, list(args)),
                      dict(task=task, line=line, args=list(args), sym=sym))
        return False
    return True


def run_split(task, acc):
    args = all_args()
    SEPS = [' ', '\t', '  ']
    LT = ['', ' ', '\t ']
    if task['kind'] == 'split1':
        for a in args:
            for sn, qa in styles_of(a):
                for lead in LT:
                    for trail in LT:
                        check_split(acc, (a,), [qa], ' ', lead, trail, task)
        acc.outcomes['split1'] += 1
    elif task['kind'] == 'split2':
        for i, a in enumerate(args):
            if i % task['parts'] != task['part']:
                continue
            sa = styles_of(a)
            for b in args:
                sb = styles_of(b)
                for (_, qa) in sa:
                    for (_, qb) in sb:
                        for sep in SEPS:
                            check_split(acc, (a, b), [qa, qb], sep, '', '', task)
                # leading/trailing whitespace with the first style of each
                for lead in LT[1:]:
                    check_split(acc, (a, b), [sa[0][1], sb[-1][1]], ' ', lead, '', task)
                    check_split(acc, (a, b), [sa[-1][1], sb[0][1]], '\t', '', lead, task)
        acc.outcomes['split2'] += 1
    else:
        pool = [a for i, a in enumerate(args) if len(a) == 1] + \
               [a for i, a in enumerate(args) if len(a) == 2 and i % 3 == 0][:20] + \
               [a for i, a in enumerate(args) if len(a) == 3 and i % 27 == 5][:13]
        for i, a in enumerate(pool):
            if i % task['parts'] != task['part']:
                continue
            for b in pool:
                for c in pool:
                    for combo in itertools.product(styles_of(a), styles_of(b), styles_of(c)):
                        check_split(acc, (a, b, c), [x[1] for x in combo], ' ', '', '', task)
        acc.outcomes['split3'] += 1
    acc.states += 1
    acc.sample(dict(kind=task['kind'], args=['a b', "'", '\\"'], quoted=['a\\ b', '"\'"', "'\\\"'"]))


# ---------------------------------------------------------------- which()
KINDS = ['absent', 'exec', 'nonexec', 'dir', 'link-exec', 'link-nonexec', 'dangling']
GOOD = ('exec', 'link-exec')


def make_entry(d, name, kind, store):
    p = os.path.join(d, name)
    if kind == 'exec':
        open(p, 'w').write('#!/bin/sh\n')
        os.chmod(p, 0o755)
    elif kind == 'nonexec':
        open(p, 'w').write('x')
        os.chmod(p, 0o644)
    elif kind == 'dir':
        os.mkdir(p)
    elif kind == 'link-exec':
        os.symlink(os.path.join(store, 'real_exec'), p)
    elif kind == 'link-nonexec':
        os.symlink(os.path.join(store, 'real_nonexec'), p)
    elif kind == 'dangling':
        os.symlink(os.path.join(store, 'nothing_here'), p)


def run_which(task, acc):
    from pexpect.utils import which
    base = tempfile.mkdtemp(prefix='c13w', dir='/verif/.scratch')
    saved_path = os.environ.get('PATH')
    saved_cwd = os.getcwd()
    try:
        store = os.path.join(base, 'store')
        os.mkdir(store)
        open(os.path.join(store, 'real_exec'), 'w').write('#!/bin/sh\n')
        os.chmod(os.path.join(store, 'real_exec'), 0o755)
        open(os.path.join(store, 'real_nonexec'), 'w').write('x')
        os.chmod(os.path.join(store, 'real_nonexec'), 0o644)
        name = 'vfcmd'
        n = 0
        for ndirs in (1, 2, 3):
            for layout in itertools.product(KINDS, repeat=ndirs):
                n += 1
                root = os.path.join(base, 'L%d' % n)
                dirs = []
                for i, k in enumerate(layout):
                    d = os.path.join(root, 'd%d' % i)
                    os.makedirs(d)
                    make_entry(d, name, k, store)
                    dirs.append(d)
                first = next((i for i, k in enumerate(layout) if k in GOOD), None)
                want_path = os.path.join(dirs[first], name) if first is not None else None
                pathstr = os.pathsep.join(dirs)
                ef = task['envform']
                cases = []
                if ef == 'given':
                    os.environ['PATH'] = '/nonexistent-dir-for-c13'
                    cases.append(('env-PATH', name, {'PATH': pathstr, 'X': '1'}, want_path))
                    # explicit path forms
                    for i, k in enumerate(layout):
                        ex = os.path.join(dirs[i], name)
                        # explicit path: itself when executable; otherwise the PATH search continues with the joined name
                        cases.append(('explicit', ex, {'PATH': '/nonexistent-dir-for-c13'}, ex if k in GOOD else None))
                elif ef == 'environ':
                    os.environ['PATH'] = pathstr
                    cases.append(('os.environ', name, None, want_path))
                elif ef == 'nopath':
                    os.environ['PATH'] = pathstr      # must be ignored: env is given without PATH
                    cases.append(('env-without-PATH', name, {'X': '1'}, None))
                    cases.append(('env-empty-dict', name, {}, None))
                    if ndirs == 1:
                        cases.append(('defpath-ls', 'ls', {'X': '1'}, 'DEFPATH'))
                elif ef == 'emptypath':
                    os.environ['PATH'] = pathstr
                    cases.append(('env-PATH-empty', name, {'PATH': ''}, None))
                else:
                    # empty component = current directory
                    os.chdir(dirs[-1])
                    os.environ['PATH'] = '/nonexistent-dir-for-c13'
                    front = os.pathsep.join(dirs[:-1] + ['']) if ndirs > 1 else os.pathsep
                    k = layout[-1]
                    f2 = next((i for i, kk in enumerate(layout[:-1]) if kk in GOOD), None)
                    if f2 is not None:
                        w = os.path.join(dirs[f2], name)
                    else:
                        w = name if k in GOOD else None
                    cases.append(('empty-component', name, {'PATH': front}, w))
                for cname, arg, env, want in cases:
                    acc.execs += 1
                    acc.transitions += 1
                    try:
                        got = which(arg, env=env)
                    except Exception as e:
                        got = 'raised %r' % e
                    if want == 'DEFPATH':
                        want = next((os.path.join(d, 'ls') for d in os.defpath.split(os.pathsep)
                                     if os.path.isfile(os.path.join(d, 'ls')) and os.access(os.path.join(d, 'ls'), os.X_OK)), None)
                    if first is None or first > 0 or cname == 'explicit':
                        acc.nontrivial += 1
                        if first and first > 0:
                            acc.flags['shadowed'] += 1
                    acc.outcomes['which:%s:%s' % (cname, 'found' if want else 'none')] += 1
                    if got != want:
                        acc.violation('which:%s' % cname, 'which(%r, env=%r) with layout %r = %r, expected %r'
                                      % (arg, env, layout, got, want),
                                      dict(task=task, layout=list(layout), case=cname))
                os.chdir(saved_cwd)
                shutil.rmtree(root, ignore_errors=True)
        acc.states += n
        acc.sample(dict(kind='which', layout=['dir', 'link-nonexec', 'link-exec'], envform=task['envform']))
    finally:
        os.chdir(saved_cwd)
        if saved_path is None:
            os.environ.pop('PATH', None)
        else:
            os.environ['PATH'] = saved_path
        shutil.rmtree(base, ignore_errors=True)


def run_which_history(task, acc):
    """The same name looked up again and again with the SAME PATH string while the directories' contents change
    in between (a program installed into an earlier directory, a chmod, a shadowing directory replaced by a
    program): every lookup answers for the file system as it is now.  All ordered pairs of two-directory layouts."""
    from pexpect.utils import which
    base = tempfile.mkdtemp(prefix='c13h', dir='/verif/.scratch')
    try:
        store = os.path.join(base, 'store')
        os.mkdir(store)
        open(os.path.join(store, 'real_exec'), 'w').write('#!/bin/sh\n')
        os.chmod(os.path.join(store, 'real_exec'), 0o755)
        open(os.path.join(store, 'real_nonexec'), 'w').write('x')
        os.chmod(os.path.join(store, 'real_nonexec'), 0o644)
        name = 'vfcmd'
        dirs = [os.path.join(base, 'd0'), os.path.join(base, 'd1')]
        for d in dirs:
            os.mkdir(d)
        env = {'PATH': os.pathsep.join(dirs), 'X': '1'}

        def set_layout(layout):
            for d, k in zip(dirs, layout):
                p = os.path.join(d, name)
                if os.path.islink(p) or os.path.isfile(p):
                    os.remove(p)
                elif os.path.isdir(p):
                    os.rmdir(p)
                make_entry(d, name, k, store)

        def want_for(layout):
            first = next((i for i, k in enumerate(layout) if k in GOOD), None)
            return os.path.join(dirs[first], name) if first is not None else None
        layouts = list(itertools.product(KINDS, repeat=2))
        n = 0
        for i, l1 in enumerate(layouts):
            if i % task['parts'] != task['part']:
                continue
            for l2 in layouts:
                n += 1
                got = []
                for lay in (l1, l2):
                    set_layout(lay)
                    try:
                        got.append(which(name, env=env))
                    except Exception as e:
                        got.append('raised %r' % e)
                want = [want_for(l1), want_for(l2)]
                acc.execs += 1
                acc.transitions += 2
                if want[0] != want[1]:
                    acc.nontrivial += 1
                    acc.flags['answer_changes_between_lookups'] += 1
                acc.outcomes['which-history:%s' % ('ok' if got == want else 'bad')] += 1
                if got != want:
                    key = 'which-history:%s' % ('second' if got[0] == want[0] else 'first')
                    acc.violation(key, 'PATH unchanged, layout %r then %r: which() answered %r, expected %r' % (l1, l2, got, want),
                                  dict(task=task, case=key, l1=list(l1), l2=list(l2)))
        acc.states += n
    finally:
        shutil.rmtree(base, ignore_errors=True)


# ---------------------------------------------------------------- real child probe
PROBE = r'''
import os, sys, json, fcntl, termios, struct
def rd(p):
    with open(p, 'rb') as f:
        return f.read()
argv = rd('/proc/self/cmdline').split(b'\0')[:-1]
env = [e for e in rd('/proc/self/environ').split(b'\0') if e]
sigign = 0
for line in rd('/proc/self/status').decode().splitlines():
    if line.startswith('SigIgn:'):
        sigign = int(line.split()[1], 16)
try:
    ws = struct.unpack('HHHH', fcntl.ioctl(0, termios.TIOCGWINSZ, b'\0' * 8))
    echo = bool(termios.tcgetattr(0)[3] & termios.ECHO)
except Exception:
    ws, echo = (0, 0, 0, 0), None
out = dict(argv=[a.decode('latin-1') for a in argv[2:]], env=sorted(e.decode('latin-1') for e in env), cwd=os.getcwd(),
           rows=ws[0], cols=ws[1], echo=echo, hup_ignored=bool(sigign & 1))
sys.stdout.write('<<<' + json.dumps(out) + '>>>')
sys.stdout.flush()
'''


def run_child(task, acc):
    import pexpect
    base = tempfile.mkdtemp(prefix='c13c', dir='/verif/.scratch')
    probe = os.path.join(base, 'probe.py')
    open(probe, 'w').write(PROBE)
    workdir = os.path.join(base, 'w d')
    os.mkdir(workdir)
    try:
        argvs = [('plain', ['x', 'y'], None), ('spaces', ['a b', ' c'], None), ('quotes', ["it's", '"q"', '\\'], None),
                 ('nonascii-bytes-mode', ['\xe9', 'a\u20ac'], None), ('unicode-mode', ['\xe9€', 'z'], 'utf-8'),
                 ('cmdline', None, None)]
        dims = [None, (1, 1), (24, 80), (50, 132)]
        combos = list(itertools.product([None, workdir], [None, 'dict'], dims, [True, False], [False, True], argvs))
        if task['quick']:
            combos = [c for i, c in enumerate(combos) if True]
        n = 0
        for i, (cwd, envk, dim, echo, ighup, (aname, args, enc)) in enumerate(combos):
            if i % task['parts'] != task['part']:
                continue
            if task['quick'] and (i // task['parts']) % 4 != 0:
                continue
            env = None if envk is None else {'LC_ALL': 'C.UTF-8', 'C13': 'v a l', 'PATH': '/usr/bin:/bin'}
            got = None
            for attempt in range(3):
                try:
                    kw = dict(cwd=cwd, env=env, echo=echo, ignore_sighup=ighup, timeout=60, encoding=enc)
                    if dim is not None:
                        kw['dimensions'] = dim
                    if args is None:
                        cmd = '%s %s a\\ b \'c d\' "e f"' % (sys.executable, probe)
                        child = pexpect.spawn(cmd, **kw)
                        want_args = ['a b', 'c d', 'e f']
                    else:
                        child = pexpect.spawn(sys.executable, [probe] + list(args), **kw)
                        want_args = [a.decode('latin-1') if isinstance(a, bytes) else a.encode(enc or 'utf-8').decode('latin-1')
                                     for a in args]
                    child.expect(pexpect.EOF)
                    txt = child.before if isinstance(child.before, str) else child.before.decode('latin-1')
                    child.close()
                    if '<<<' in txt and '>>>' in txt:
                        got = json.loads(txt[txt.index('<<<') + 3: txt.index('>>>')])
                        break
                except (pexpect.TIMEOUT, pexpect.ExceptionPexpect, OSError):
                    continue
            acc.execs += 1
            acc.transitions += 1
            n += 1
            if got is None:
                acc.extra['inconclusive'] = acc.extra.get('inconclusive', 0) + 1
                continue
            acc.flags['probe_answered'] += 1
            acc.nontrivial += 1
            want = dict(argv=want_args, cwd=os.path.realpath(cwd) if cwd else os.getcwd(), echo=echo, hup_ignored=ighup)
            if dim is not None:
                want['rows'], want['cols'] = dim
            else:
                want['rows'], want['cols'] = 24, 80
            if env is not None:
                want['env'] = sorted('%s=%s' % kv for kv in env.items())
            else:
                want['env'] = sorted(k.encode('utf-8', 'surrogateescape').decode('latin-1') + '=' +
                                     v.encode('utf-8', 'surrogateescape').decode('latin-1') for k, v in os.environ.items())
            bad = [k for k in want if got.get(k) != want[k]]
            acc.outcomes['child:%s' % ('ok' if not bad else 'bad')] += 1
            if bad:
                k = bad[0]
                acc.violation('child:%s:%s' % (k, aname), 'child saw %s=%r, requested %r (cwd=%r env=%s dim=%r echo=%r ighup=%r)'
                              % (k, got.get(k), want[k], cwd, envk, dim, echo, ighup),
                              dict(task=task, index=i))
        # piped subprocess (PopenSpawn): argv (list and shlex-split string), cwd, env
        if task['part'] == 0:
            from pexpect import popen_spawn
            for cwd in (None, workdir):
                for envk in (None, 'dict'):
                    for form in ('list', 'string'):
                        for enc in (None, 'utf-8'):
                            env = None if envk is None else {'LC_ALL': 'C.UTF-8', 'C13': 'v a l', 'PATH': '/usr/bin:/bin'}
                            if form == 'list':
                                cmd = [sys.executable, probe, 'a b', "it's", '\xe9']
                            else:
                                cmd = '%s %s "a b" "it\'s" \xe9' % (sys.executable, probe)
                            want_args = ['a b', "it's", '\xe9'.encode('utf-8').decode('latin-1')]
                            got = None
                            for attempt in range(3):
                                try:
                                    child = popen_spawn.PopenSpawn(cmd, cwd=cwd, env=env, timeout=60, encoding=enc)
                                    child.expect(pexpect.EOF)
                                    txt = child.before if isinstance(child.before, str) else child.before.decode('latin-1')
                                    child.wait()
                                    if '<<<' in txt:
                                        got = json.loads(txt[txt.index('<<<') + 3: txt.index('>>>')])
                                        break
                                except (pexpect.TIMEOUT, pexpect.ExceptionPexpect, OSError):
                                    continue
                            acc.execs += 1
                            acc.transitions += 1
                            n += 1
                            if got is None:
                                acc.extra['inconclusive'] = acc.extra.get('inconclusive', 0) + 1
                                continue
                            acc.flags['probe_answered'] += 1
                            acc.nontrivial += 1
                            want = dict(argv=want_args, cwd=os.path.realpath(cwd) if cwd else os.getcwd())
                            if env is not None:
                                want['env'] = sorted('%s=%s' % kv for kv in env.items())
                            else:
                                want['env'] = sorted(k.encode('utf-8', 'surrogateescape').decode('latin-1') + '=' +
                                                     v.encode('utf-8', 'surrogateescape').decode('latin-1') for k, v in os.environ.items())
                            bad = [k for k in want if got.get(k) != want[k]]
                            acc.outcomes['popen-child:%s' % ('ok' if not bad else 'bad')] += 1
                            if bad:
                                k = bad[0]
                                acc.violation('popen-child:%s:%s' % (k, form), 'PopenSpawn child saw %s=%r, requested %r (cwd=%r env=%s)'
                                              % (k, got.get(k), want[k], cwd, envk), dict(task=task, index='popen'))
        acc.states += n
        acc.sample(dict(kind='child', cwd=workdir, env='dict', dimensions=[50, 132], echo=False, ignore_sighup=True, argv=['a b', ' c']))
    finally:
        shutil.rmtree(base, ignore_errors=True)


def probe_once(acc, spawn, what):
    """One real launch; returns the probe's report, 'launch-failed: ...' when the library refuses to start
    the program, or None (inconclusive: the probe did not answer three times)."""
    import pexpect
    got = None
    for attempt in range(3):
        try:
            child = spawn()
        except pexpect.ExceptionPexpect as e:
            return 'launch-failed: %s' % (str(e).splitlines() or [''])[0]
        try:
            child.expect(pexpect.EOF)
            txt = child.before if isinstance(child.before, str) else child.before.decode('latin-1')
            child.close()
            if '<<<' in txt and '>>>' in txt:
                got = json.loads(txt[txt.index('<<<') + 3: txt.index('>>>')])
                break
        except (pexpect.TIMEOUT, pexpect.ExceptionPexpect, OSError):
            continue
    acc.execs += 1
    acc.transitions += 1
    if got is None:
        acc.extra['inconclusive'] = acc.extra.get('inconclusive', 0) + 1
    else:
        acc.flags['probe_answered'] += 1
        acc.nontrivial += 1
    return got


def environ_latin1():
    return sorted(k.encode('utf-8', 'surrogateescape').decode('latin-1') + '=' +
                  v.encode('utf-8', 'surrogateescape').decode('latin-1') for k, v in os.environ.items())


def _preexec():
    os.umask(0o027)


def run_launch(task, acc, only=None):
    import pexpect
    base = tempfile.mkdtemp(prefix='c13l', dir='/verif/.scratch')
    probe = os.path.join(base, 'probe.py')
    open(probe, 'w').write(PROBE)
    workdir = os.path.join(base, 'w d')
    os.mkdir(workdir)
    n = 0
    try:
        if task['sub'] == 'program-word':
            # the program itself needs quoting; a decoy sits where a second split of the word would point
            progs = ['my tools/the prog', "it's", 'q"x', 'b\\s', 't\tab']
            os.mkdir(os.path.join(base, 'my tools'))
            for name in progs + ['my', 'it', 'q', 'b', 't']:
                path = os.path.join(base, name)
                decoy = name in ('my', 'it', 'q', 'b', 't')
                with open(path, 'w') as f:
                    if decoy:
                        f.write('#!/bin/sh\necho \'<<<{"decoy": true}>>>\'\n')
                    else:
                        f.write('#!/bin/sh\nexec %s %s "$@"\n' % (sys.executable, probe))
                os.chmod(path, 0o755)
            for name in progs:
                path = os.path.join(base, name)
                for sname, quoted in styles_of(path):
                    for args, qargs in (([], ''), (['a b', 'c'], ' a\\ b c')):
                        for lt, (lead, trail) in enumerate((('', ''), (' ', ''), ('', ' '), ('\t', ' \t'))):
                            line = lead + quoted + qargs + trail
                            case = 'program-word:%s:%d-args' % (sname, len(args))
                            detail = [progs.index(name), sname, len(args), lt]
                            if only is not None and only != detail:
                                continue
                            got = probe_once(acc, lambda: pexpect.spawn(line, timeout=60), case)
                            n += 1
                            acc.flags['quoted_program_word'] += 1
                            if not args:
                                acc.flags['program_word_alone'] += 1
                            if got is None:
                                continue
                            ok = isinstance(got, dict) and got.get('argv') == args
                            acc.outcomes['program-word:%s' % ('ok' if ok else 'bad')] += 1
                            if not ok:
                                acc.violation(case, 'spawn(%r): expected %r to run with arguments %r; %s'
                                              % (line, path, args, 'another program ran' if isinstance(got, dict) and got.get('decoy')
                                                 else 'got %r' % (got if isinstance(got, str) else got.get('argv'),)),
                                              dict(task=task, case=case, only=detail))
        elif task['sub'] == 'env-no-path':
            # bare command name, env without PATH (so the default path is searched): the child's environment
            # is exactly the mapping that was given
            for envname, env in (('no-path', {'C13': 'v a l', 'LC_ALL': 'C.UTF-8'}), ('empty', {}),
                                 ('with-path', {'C13': 'x', 'PATH': '/usr/bin:/bin'}), ('empty-path', {'C13': 'x', 'PATH': ''})):
                for form in ('bare', 'explicit'):
                    for via in ('spawn', 'run'):
                        cmd = 'cat' if form == 'bare' else '/bin/cat'
                        given = dict(env)
                        case = 'env-no-path:%s:%s:%s' % (envname, form, via)
                        if only is not None and only != case:
                            continue
                        try:
                            if via == 'spawn':
                                child = pexpect.spawn(cmd, ['/proc/self/environ'], env=given, timeout=60)
                                child.expect(pexpect.EOF)
                                out = child.before
                                child.close()
                            else:
                                out = pexpect.run(cmd + ' /proc/self/environ', env=given, timeout=60)
                            got = sorted(e.decode('latin-1') for e in out.split(b'\0') if e)
                        except pexpect.ExceptionPexpect as e:
                            got = 'launch-failed: %s' % (str(e).splitlines() or [''])[0]
                        acc.execs += 1
                        acc.transitions += 1
                        acc.nontrivial += 1
                        n += 1
                        if 'PATH' not in env and form == 'bare':
                            acc.flags['bare_name_env_without_path'] += 1
                        want = sorted('%s=%s' % kv for kv in env.items())
                        ok = got == want
                        acc.outcomes['env-no-path:%s' % ('ok' if ok else 'bad')] += 1
                        if not ok:
                            acc.violation(case, '%s(%r, env=%r): the child saw environment %r' % (via, cmd, env, got),
                                          dict(task=task, case=case, only=case))
        else:
            # every ordered pair of settings, launched one after the other in this process: the second child
            # sees its own request, whatever the first one asked for
            confs = [dict(), dict(dimensions=(10, 33)), dict(dimensions=(50, 132)), dict(dimensions=None),
                     dict(echo=False), dict(cwd=workdir), dict(env={'C13': 'one', 'PATH': '/usr/bin:/bin'}),
                     dict(env={'C13B': 'two'}), dict(ignore_sighup=True), dict(encoding='utf-8', dimensions=(7, 9), echo=False),
                     # the caller's own preexec_fn next to the settings pexpect implements through preexec_fn itself
                     dict(ignore_sighup=True, preexec_fn=_preexec), dict(preexec_fn=_preexec, echo=False, dimensions=(3, 5))]

            def launch(conf):
                return probe_once(acc, lambda: pexpect.spawn(sys.executable, [probe, 'x'], timeout=60, **conf), conf)

            def wanted(conf):
                dim = conf.get('dimensions') or (24, 80)
                w = dict(argv=['x'], cwd=os.path.realpath(conf['cwd']) if conf.get('cwd') else os.getcwd(),
                         echo=conf.get('echo', True), hup_ignored=conf.get('ignore_sighup', False), rows=dim[0], cols=dim[1])
                w['env'] = sorted('%s=%s' % kv for kv in conf['env'].items()) if conf.get('env') is not None else environ_latin1()
                return w
            pairs = list(itertools.product(range(len(confs)), repeat=2))
            for j, (a, b) in enumerate(pairs):
                if j % task['parts'] != task['part'] or (only is not None and only != [a, b]):
                    continue
                for which, conf in (('first', confs[a]), ('second', confs[b])):
                    got = launch(dict(conf))
                    n += 1
                    if got is None:
                        continue
                    if which == 'second' and a != b:
                        acc.flags['second_launch_differs_from_first'] += 1
                    if conf.get('preexec_fn') and conf.get('ignore_sighup'):
                        acc.flags['preexec_fn_with_ignore_sighup'] += 1
                    want = wanted(conf)
                    bad = [k for k in want if not isinstance(got, dict) or got.get(k) != want[k]]
                    acc.outcomes['pairs:%s' % ('ok' if not bad else 'bad')] += 1
                    if bad:
                        k = bad[0]
                        case = 'pairs:%s:%s' % (k, which)
                        acc.violation(case, '%s launch %r (after %r): child saw %s=%r, requested %r'
                                      % (which, conf, confs[a] if which == 'second' else None, k,
                                         got.get(k) if isinstance(got, dict) else got, want[k]),
                                      dict(task=task, case=case, only=[a, b]))
        acc.states += n
    finally:
        shutil.rmtree(base, ignore_errors=True)


def run_task(task):
    os.makedirs('/verif/.scratch', exist_ok=True)
    acc = Acc()
    if task['kind'] == 'launch':
        run_launch(task, acc)
        return acc
    if task['kind'].startswith('split'):
        run_split(task, acc)
    elif task['kind'] == 'which-history':
        run_which_history(task, acc)
    elif task['kind'] == 'which':
        run_which(task, acc)
    else:
        run_child(task, acc)
    return acc


def replay(spec):
    from mc.explore import unjson
    spec = unjson(spec)
    task = spec['task']
    out = {'violation': None}
    if task['kind'].startswith('split'):
        from pexpect.utils import split_command_line
        try:
            got = split_command_line(spec['line'])
        except Exception as e:
            got = 'raised %r' % e
        out['got'] = got
        if got != spec['args']:
            out['violation'] = {'key': 'split:%s' % spec.get('sym', 'plain'),
                                'msg': 'split_command_line(%r) = %r expected %r' % (spec['line'], got, spec['args'])}
        return out
    if task['kind'] == 'launch':
        acc = Acc()
        run_launch(task, acc, only=spec.get('only'))
    else:
        acc = run_task(task)
    for k in sorted(acc.violations):
        for v in acc.violations[k]:
            r = v['replay']
            if (r.get('layout'), r.get('case'), r.get('index')) == (spec.get('layout'), spec.get('case'), spec.get('index')):
                out['violation'] = {'key': k, 'msg': v['msg']}
                return out
    for k in sorted(acc.violations):
        v = acc.violations[k][0]
        if v['replay'].get('case') == spec.get('case') and 'index' not in spec:
            out['violation'] = {'key': k, 'msg': v['msg']}
            return out
    return out
