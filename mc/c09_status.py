"""C09 -- exit status truth.  Every fate x time of death (every placement relative to
the observing calls' system calls) x every observation sequence up to a bound, on the
controlled environment with the simulated process table; PopenSpawn and run() paths;
conformance of the status words with the real kernel."""
import itertools
import signal

import pexpect
from pexpect import EOF, TIMEOUT

from mc import env as E
from mc import lifecycle as L
from mc.explore import dfs, Chooser, Cut
from mc.runner import Acc

PROPERTY = 'C09'
RULE = ('case = (fate, observation sequence, placement of the death among the system calls of the sequence); non-trivial = '
        'the death lands between two observations or the sequence repeats observations; distinct by construction')
ASSUMPTIONS = ['process table simulated (ProcSim) and validated against real /bin/sh children (mc.conform_procsim, counts in evidence)',
               'fates: all exit codes 0..255 and signals 1..31,34..64 (with/without core bit) for sequences <= 2; a 12-fate representative set for all sequences <= 3']
REQUIRED_FLAGS = {'death_between_observations': 1, 'signal_fate': 1, 'core_bit': 1, 'popen': 1, 'run': 1, 'real_kernel': 1}

OPS = ['isalive', 'wait', 'close', 'close_noforce', 'terminate', 'terminate_force', 'expect_eof', 'read_until_eof', 'kill_0', 'wait_interrupted']
REP_FATES = [('exit', 0), ('exit', 1), ('exit', 2), ('exit', 127), ('exit', 128), ('exit', 255),
             ('sig', 1), ('sig', 2), ('sig', 9), ('sig', 15), ('sig', 11, True), ('sig', 64)]


def all_fates():
    f = [('exit', c) for c in range(256)]
    for s in list(range(1, 32)) + list(range(34, 65)):
        f.append(('sig', s))
        f.append(('sig', s, True))
    return f


def bounds(tier):
    return dict(ops=OPS, rep_fates=REP_FATES, all_fates=len(all_fates()), max_len_rep=2 if tier == 'quick' else 3,
                conformance_len=3 if tier == 'quick' else 4)


def tasks(tier):
    out = []
    for i, f in enumerate(REP_FATES):
        out.append(dict(kind='rep', fate=list(f), tier=tier))
    # a child that ignores SIGHUP/SIGINT: close(force=False)/terminate() fail first, the death comes later
    for f in (('exit', 3), ('sig', 9), ('sig', 15)):
        out.append(dict(kind='rep', fate=list(f), tier=tier, disposition='ignores'))
    # fault answer: kill() reports ESRCH for the child that has just died (terminate()'s "except OSError" branch)
    for f in (('exit', 7), ('sig', 10)):
        out.append(dict(kind='rep', fate=list(f), tier=tier, disposition='kill-esrch'))
    for i in range(8):
        out.append(dict(kind='all', part=i, parts=8, tier=tier))
    out.append(dict(kind='popen', tier=tier))
    out.append(dict(kind='run', tier=tier))
    out.append(dict(kind='real', tier=tier))
    n = 8 if tier == 'quick' else 16
    for i in range(n):
        out.append(dict(kind='conform', part=i, parts=n, tier=tier))
    return out


def run_seq(ch, fate, seq, immediate=False, disposition='normal'):
    r = None
    viol = None
    try:
        r = L.Run(ch, 'pty-select', fate=None if immediate else tuple(fate), disposition=disposition)
        if immediate:
            if fate[0] == 'exit':
                r.env.procs.exit(r.proc, fate[1])
            else:
                r.env.procs.killed(r.proc, fate[1], core=len(fate) > 2 and fate[2])
        for op in seq:
            r.do(op)
            if r.viol:
                break
        viol = r.viol
        obs = dict(events=r.events, fate_fired=[x for x in r.env.log])
    except E.Hang as h:
        obs = dict(events=r.events if r else [], hang=str(h))
        viol = ('hang', str(h))
    except Cut as c:
        obs = dict(events=r.events if r else [])
        viol = ('horizon', str(c))
    finally:
        if r is not None:
            r.finish()
    return obs, viol


def run_task(task):
    acc = Acc()
    q = task['tier'] == 'quick'
    if task['kind'] == 'rep':
        fate = task['fate']
        maxlen = 2 if q else 3
        for n in range(1, maxlen + 1):
            for seq in itertools.product(OPS, repeat=n):
                def run(ch):
                    return run_seq(ch, fate, seq, disposition=task.get('disposition', 'normal'))
                for ch, (obs, viol) in dfs(run):
                    acc.execs += 1
                    acc.transitions += len(obs.get('events', ()))
                    nt = len(set(seq)) < len(seq)
                    if ch.deviations():
                        nt = True
                        acc.flags['death_between_observations'] += 1
                    if fate[0] == 'sig':
                        acc.flags['signal_fate'] += 1
                        if len(fate) > 2:
                            acc.flags['core_bit'] += 1
                    if nt:
                        acc.nontrivial += 1
                    acc.outcomes['rep:%s' % ('viol:' + viol[0] if viol else 'ok')] += 1
                    if viol:
                        acc.violation('pty:%s:%s' % (seq[-1] if not obs.get('events') else obs['events'][-1][0], viol[0]),
                                      'fate %r sequence %r: %s | events %r' % (fate, seq, viol[1], obs.get('events')),
                                      dict(task=task, seq=list(seq), choices=ch.choices()))
        acc.states += 1
    elif task['kind'] == 'all':
        fates = all_fates()
        seqs = [s for n in (1, 2) for s in itertools.product(OPS, repeat=n)]
        for i, fate in enumerate(fates):
            if i % task['parts'] != task['part']:
                continue
            for seq in (seqs if not q else seqs[:9] + seqs[9::7]):
                obs, viol = run_seq(Chooser(()), fate, seq, immediate=True)
                acc.execs += 1
                acc.transitions += len(seq)
                acc.nontrivial += 1 if len(seq) > 1 else 0
                acc.outcomes['all:%s' % ('viol' if viol else 'ok')] += 1
                if fate[0] == 'sig':
                    acc.flags['signal_fate'] += 1
                    if len(fate) > 2:
                        acc.flags['core_bit'] += 1
                if viol:
                    acc.violation('pty:%s:%s' % (seq[-1], viol[0]), 'fate %r sequence %r: %s' % (fate, seq, viol[1]),
                                  dict(task=task, fate=list(fate), seq=list(seq), immediate=True))
        acc.states += 1
    elif task['kind'] == 'popen':
        for fate in all_fates():
            if len(fate) > 2:
                continue
            for seq in (('wait',), ('wait', 'wait')):
                obs, viol = run_popen(fate, seq)
                acc.execs += 1
                acc.transitions += len(seq)
                acc.nontrivial += 1
                acc.flags['popen'] += 1
                acc.outcomes['popen:%s' % ('viol' if viol else 'ok')] += 1
                if viol:
                    acc.violation('popen:wait:%s' % viol[0], 'fate %r: %s' % (fate, viol[1]), dict(task=task, fate=list(fate), seq=list(seq)))
        acc.states += 1
    elif task['kind'] == 'run':
        for fate in all_fates():
            if len(fate) > 2:
                continue
            for enc in (None, 'utf-8'):
                obs, viol = run_run(fate, enc)
                acc.execs += 1
                acc.transitions += 1
                acc.nontrivial += 1
                acc.flags['run'] += 1
                acc.outcomes['run:%s' % ('viol' if viol else 'ok')] += 1
                if viol:
                    acc.violation('run:%s' % viol[0], 'fate %r encoding %r: %s' % (fate, enc, viol[1]), dict(task=task, fate=list(fate), enc=enc))
        acc.states += 1
    elif task['kind'] == 'real':
        run_real(task, acc)
    else:
        from mc import conform_procsim as cp
        n, bad = cp.run(3 if q else 4, task['part'], task['parts'])
        acc.execs += n
        acc.transitions += n
        acc.nontrivial += n
        acc.extra['env_traces_validated_against_real_kernel'] = n
        acc.flags['real_kernel'] += n
        acc.outcomes['conform:%s' % ('mismatch' if bad else 'ok')] += 1
        for b in bad[:3]:
            acc.violation('HARNESS:procsim-vs-kernel', 'ProcSim disagrees with the real kernel: %r' % (b,), dict(task=task, conform=True))
        acc.states += 1
    acc.sample(dict(task=task, example_seq=['expect_eof', 'isalive', 'close']))
    return acc


def run_popen(fate, seq):
    E.install()
    E.install_popen()
    from pexpect import popen_spawn
    env = E.Env(Chooser(()))
    viol = None
    try:
        sp = popen_spawn.PopenSpawn(['fake'], timeout=0.3)
        p = env.popen.proc
        if fate[0] == 'exit':
            env.procs.exit(p, fate[1])
        else:
            env.procs.killed(p, fate[1])
        want = L.decode(p.status)
        for op in seq:
            r = sp.wait()
            code = want[0] if want[0] is not None else -want[1]
            if r != code:
                viol = ('wait-return', 'PopenSpawn.wait() returned %r, expected %r' % (r, code))
            elif (sp.exitstatus, sp.signalstatus) != want or not sp.terminated:
                viol = ('status', 'exitstatus/signalstatus = %r terminated=%r, real fate %r' % ((sp.exitstatus, sp.signalstatus), sp.terminated, want))
            if viol:
                break
    except Exception as e:
        viol = ('exception', repr(e))
    finally:
        E.finish_popen(env)
        env.finish()
    return {}, viol


def run_run(fate, enc):
    E.install()
    import sys
    prun = sys.modules['pexpect.run']
    env = E.Env(Chooser(()))
    viol = None
    box = {}
    try:
        def on_spawn(sp):
            box['sp'] = sp
            env.add('w', b'hello', fd=sp.hs_slave, at=0.01)
            if fate[0] == 'exit':
                env.add('exit', (sp.hs_proc, fate[1]), at=0.02)
            else:
                env.add('sig', (sp.hs_proc, fate[1]), at=0.02)
        env.on_spawn = on_spawn
        saved = prun.spawn
        prun.spawn = E.hs_class(dict(raw=True))
        try:
            out = prun.run('/bin/true', timeout=1, withexitstatus=True, encoding=enc)
        finally:
            prun.spawn = saved
        want = (b'hello' if enc is None else 'hello', fate[1] if fate[0] == 'exit' else None)
        if out != want:
            viol = ('run-result', 'run() returned %r, expected %r' % (out, want))
    except E.Hang as h:
        viol = ('hang', str(h))
    except Exception as e:
        viol = ('exception', repr(e))
    finally:
        if 'sp' in box:
            E.finalize_pty(box['sp'])
        env.finish()
    return {}, viol


def run_real(task, acc):
    """Conformance of the status words: real /bin/sh children through the real pexpect.spawn
    (wait-first path, no timing guess)."""
    E.install()
    codes = list(range(256))
    sigs = [s for s in list(range(1, 32)) if s not in (signal.SIGSTOP, signal.SIGTSTP, signal.SIGTTIN, signal.SIGTTOU,
                                                       signal.SIGCONT, signal.SIGCHLD, signal.SIGURG, signal.SIGWINCH,
                                                       signal.SIGPIPE, signal.SIGXFSZ)]   # (the last two are ignored by children of a Python parent)
    if task['tier'] == 'quick':
        codes = codes[::5] + [255]
    for kind, vals in (('exit', codes), ('sig', sigs)):
        for v in vals:
            cmd = 'exit %d' % v if kind == 'exit' else 'kill -%d $$' % v
            child = pexpect.spawn('/bin/sh', ['-c', cmd], timeout=30)
            r = child.wait()
            got = (child.exitstatus, child.signalstatus, child.terminated)
            want = (v, None, True) if kind == 'exit' else (None, v, True)
            child.close()
            after = (child.exitstatus, child.signalstatus, child.terminated)
            acc.execs += 1
            acc.transitions += 1
            acc.nontrivial += 1
            acc.flags['real_kernel'] += 1
            acc.outcomes['real:%s' % ('ok' if got == want else 'bad')] += 1
            if got != want or after != want or (kind == 'exit' and r != v):
                acc.violation('real:%s:status' % kind, 'real child %r: wait()=%r status %r then %r, expected %r' % (cmd, r, got, after, want),
                              dict(task=task, cmd=cmd))
    acc.states += 1


def replay(spec):
    from mc.explore import unjson
    spec = unjson(spec)
    task = spec['task']
    out = {'violation': None}
    if task['kind'] in ('rep', 'all'):
        fate = task['fate'] if task['kind'] == 'rep' else spec['fate']
        obs, viol = run_seq(Chooser(spec.get('choices', ())), fate, tuple(spec['seq']), immediate=spec.get('immediate', False),
                            disposition=task.get('disposition', 'normal'))
        out['observation'] = obs
        if viol:
            last = obs['events'][-1][0] if obs.get('events') else spec['seq'][-1]
            out['violation'] = {'key': 'pty:%s:%s' % (last if task['kind'] == 'rep' else spec['seq'][-1], viol[0]), 'msg': viol[1]}
    elif task['kind'] == 'popen':
        obs, viol = run_popen(tuple(spec['fate']), tuple(spec['seq']))
        if viol:
            out['violation'] = {'key': 'popen:wait:%s' % viol[0], 'msg': viol[1]}
    elif task['kind'] == 'run':
        obs, viol = run_run(tuple(spec['fate']), spec['enc'])
        if viol:
            out['violation'] = {'key': 'run:%s' % viol[0], 'msg': viol[1]}
    elif task['kind'] == 'conform':
        from mc import conform_procsim as cp
        n, bad = cp.run(3 if task['tier'] == 'quick' else 4, task['part'], task['parts'])
        if bad:
            out['violation'] = {'key': 'HARNESS:procsim-vs-kernel', 'msg': repr(bad[0])}
    else:
        acc = Acc()
        run_real(task, acc)
        for k, v in acc.violations.items():
            out['violation'] = {'key': k, 'msg': v[0]['msg']}
    return out
