"""E3 -- the narrow seam for pure stream logic.

ScriptSpawn is a SpawnBase whose read_nonblocking() asks a callback for the next
environment answer: a chunk of bytes (run through the real decoder and the real
_log, exactly like SpawnBase.read_nonblocking), TIMEOUT or EOF.  Everything
else (Expecter, searchers, read/readline/..., buffer property) is the real code.
"""
import pexpect
import pexpect.expect
import pexpect.spawnbase
from pexpect import EOF, TIMEOUT
from pexpect.spawnbase import SpawnBase

from mc.vclock import CLOCK


def install_clock():
    CLOCK.virtual = True
    pexpect.expect.time = CLOCK


class ScriptSpawn(SpawnBase):
    def __init__(self, answer, **kw):
        SpawnBase.__init__(self, **kw)
        self.closed = False
        self.answer = answer          # answer(size, timeout) -> bytes | EOF | TIMEOUT
        self.reads = 0
        self.name = '<ScriptSpawn>'
        self.args = None
        self.command = None

    def read_nonblocking(self, size=1, timeout=-1):
        if timeout == -1:
            timeout = self.timeout
        self.reads += 1
        ans = self.answer(size, timeout)
        if ans is EOF:
            self.flag_eof = True
            raise EOF('End Of File (EOF). Scripted.')
        if ans is TIMEOUT:
            if timeout is not None and timeout > 0:
                CLOCK.now += timeout
            raise TIMEOUT('Timeout exceeded.')
        s = self._decoder.decode(ans, final=False)
        self._log(s, 'read')
        return s

    # -- snapshot / restore of everything Expecter reads ------------------
    def snap(self):
        return (self._before.getvalue(), self._buffer.getvalue())

    def positions(self):
        """Stream positions of the two buffers (the code uses tell() as 'length'): part of the state."""
        return (self._before.tell(), self._buffer.tell())

    def aliased(self):
        """Do the two buffers share one object?  (Part of the state: a restore into two
        independent objects would silently repair such a bug.)"""
        return self._before is self._buffer

    def restore(self, bef, buf, aliased=False, positions=None):
        self._before = self.buffer_type()
        self._before.write(bef)
        if aliased:
            self._buffer = self._before
        else:
            self._buffer = self.buffer_type()
            self._buffer.write(buf)
        if positions is not None:
            self._before.seek(positions[0])
            self._buffer.seek(positions[1])
