"""setup_cmd: nothing to build (pure Python); verify the toolchain the checks need."""
import os
import sys
ROOT = os.path.dirname(os.path.dirname(os.path.abspath(__file__)))
sys.path.insert(0, '/repo')
sys.path.insert(0, ROOT)
import warnings
warnings.filterwarnings('ignore')


def main():
    import pexpect
    assert os.path.realpath(pexpect.__file__).startswith('/repo/'), pexpect.__file__
    import ptyprocess  # noqa
    from mc import explore
    # the explorer enumerates a known space exactly once
    seen = []
    def run(ch):
        a = ch.choose(3); b = ch.choose(2) if a else 0
        return (a, b)
    for ch, r in explore.dfs(run):
        seen.append(r)
    assert sorted(seen) == [(0, 0), (1, 0), (1, 1), (2, 0), (2, 1)], seen
    assert len(list(explore.dfs(run, bound=1))) == 3
    os.makedirs(os.path.join(ROOT, 'evidence'), exist_ok=True)
    os.makedirs(os.path.join(ROOT, 'replays'), exist_ok=True)
    print('selftest ok')


if __name__ == '__main__':
    main()
