"""C11 -- logging fidelity.  Complete enumeration of read/send operation
sequences x every non-empty subset of {logfile, logfile_read, logfile_send} x
mode x transport, with a multi-byte text whose characters are cut by the read
boundaries.  The log objects record every write()/flush() with type and global
order."""
import codecs
import errno
import itertools
import os
import termios

from pexpect import EOF, TIMEOUT

from mc import env as E
from mc import transports as TR
from mc.explore import Chooser, Cut
from mc.runner import Acc

PROPERTY = 'C11'
RULE = ('case = (operation sequence, log subset, mode, transport); every case executed once; non-trivial = the sequence '
        'mixes reads and sends, or a read boundary cuts a multi-byte character, or a control character is sent')
ASSUMPTIONS = ['the peer delivers one chunk right before each read operation and the library reads all of it (maxread 2000)',
               'interact() logging is judged by C15 with the same recording log objects']
REQUIRED_FLAGS = {'mixed': 1, 'cut_char': 1, 'control_logged': 1, 'all_three_logs': 1, 'interact_piece_needing_several_writes': 1}

CHUNKS = [b'ab', b'\xc3\xa9', b'x\xe2\x82\xac', b'y\xf0\x9d\x84\x9e', b'z']
TAILS = [b'\xc3', b'\xe2', b'\xe2\x82', b'\xf0\x9d', b'']
HEADS = [b'', b'\xa9', b'\x82\xac', b'\xac', b'\x84\x9e']
SUBSETS = [s for n in (1, 2, 3) for s in itertools.combinations(('logfile', 'logfile_read', 'logfile_send'), n)]


class Rec(object):
    def __init__(self, name, events, fault=None):
        self.name = name
        self.events = events
        self.fault = fault          # shared one-shot switch: the next write to any log file fails (disk full)

    def write(self, s):
        if self.fault is not None and self.fault[0]:
            self.fault[0] = False
            raise OSError(errno.ENOSPC, 'No space left on device')
        self.events.append((self.name, 'w', s))

    def flush(self):
        self.events.append((self.name, 'f', None))


def bounds(tier):
    return dict(ops=['expect_ok', 'expect_no', 'read_nonblocking', 'send', 'sendline', 'sendcontrol(c)', 'sendeof', 'sendintr'],
                max_len=3 if tier == 'quick' else 4, subsets=len(SUBSETS), modes=['bytes', 'utf-8'], transports=TR.NAMES,
                chunks=[repr(c) for c in CHUNKS])


def tasks(tier):
    out = [dict(kind='interact', mode=m, tier=tier) for m in ('bytes', 'utf-8')]
    # ... and with a child that takes one byte per write (keystroke pieces then need several writes: logged once)
    out += [dict(kind='interact', mode=m, tier=tier, write_cap=1) for m in ('bytes', 'utf-8')]
    for tr in TR.NAMES:
        for mode in ('bytes', 'utf-8'):
            for sub in SUBSETS:
                out.append(dict(transport=tr, mode=mode, subset=list(sub), tier=tier))
            # small maxread: a chunk is returned in several reads (PopenSpawn carries the rest over in its own buffer)
            out.append(dict(transport=tr, mode=mode, subset=['logfile', 'logfile_read', 'logfile_send'], tier=tier, maxread=3))
    for mode in ('bytes', 'utf-8'):
        out.append(dict(transport='pty-select', mode=mode, subset=['logfile', 'logfile_read', 'logfile_send'], tier=tier, aio=True))
    return out


def menu(tr, aio=False):
    if aio:
        # awaited reads on the real (controlled) event loop; a poll (timeout 0) makes data arrive while its timeout fires
        return ['aexpect_ok', 'aexpect_no', 'aexpect_poll', 'expect_ok', 'send', 'sendcontrol']
    # send_fault: one log write fails during a send (the caller sees the error); every later record must still be logged
    ops = ['expect_ok', 'expect_no', 'rnb', 'send', 'sendline', 'send_fault']
    if tr.startswith('pty'):
        ops += ['sendcontrol', 'sendeof', 'sendintr']
    return ops


def run_seq(task, seq):
    loop = None
    if task.get('aio'):
        import asyncio
        from mc import aio
        aio.install()
    env = E.Env(Chooser(()))
    link = None
    viol = None
    obs = {}
    try:
        if task.get('aio'):
            loop = aio.new_loop()
            asyncio.set_event_loop(loop)
        enc = None if task['mode'] == 'bytes' else task['mode']
        link = TR.Link(env, task['transport'], timeout=0.1, maxread=task.get('maxread', 2000), encoding=enc)
        sp = link.sp
        if task['transport'] == 'popen':
            env.eager_reader = True
            sp.delayafterread = 0.01
        events = []
        fault = [False]
        mark = 0
        for name in task['subset']:
            setattr(sp, name, Rec(name, events, fault))
        S = (lambda s: s.encode('utf-8')) if enc is None else (lambda s: s)
        dec = codecs.getincrementaldecoder(enc)() if enc else None
        ci = 0
        want_read = S('')
        want_send = S('')
        want_all = S('')
        if task['transport'].startswith('pty'):
            cc = termios.tcgetattr(link.wfd)[6]
            veof, vintr = cc[termios.VEOF], cc[termios.VINTR]
        for op in seq:
            if op in ('expect_ok', 'expect_no', 'rnb', 'aexpect_ok', 'aexpect_no', 'aexpect_poll'):
                # a unique token per chunk: the pattern of expect_ok cannot already be pending,
                # so every read operation consumes exactly the chunk delivered for it
                k = ci % len(CHUNKS)
                chunk = HEADS[k] + CHUNKS[k] + (b'K%d;' % ci) + TAILS[k]
                tok = 'K%d;' % ci
                ci += 1
                link.now_w(chunk)
                text = chunk if dec is None else dec.decode(chunk)
                want_read += text
                want_all += text
                try:
                    if op == 'aexpect_ok':
                        loop.run_until_complete(sp.expect([S(tok), TIMEOUT], async_=True))
                    elif op == 'aexpect_no':
                        loop.run_until_complete(sp.expect([S('ZZ'), TIMEOUT], async_=True))
                    elif op == 'aexpect_poll':
                        loop.run_until_complete(sp.expect([S('ZZ'), TIMEOUT], timeout=0, async_=True))
                        # what the poll left unread is taken by a blocking call
                        sp.expect([S(tok), TIMEOUT])
                    elif op == 'expect_ok':
                        sp.expect([S(tok), TIMEOUT])
                    elif op == 'expect_no':
                        sp.expect([S('ZZ'), TIMEOUT])
                    else:
                        sp.read_nonblocking(2000, 0.1)
                except TIMEOUT:
                    pass
                if task.get('maxread'):
                    # drain what the operation left of its chunk (reads of at most maxread characters)
                    for _ in range(40):
                        try:
                            if not sp.read_nonblocking(sp.maxread, 0.05):
                                break
                        except TIMEOUT:
                            break
            elif op == 'send_fault':
                fault[0] = True
                try:
                    sp.send(S('F!'))
                except OSError as e:
                    if e.errno != errno.ENOSPC:
                        raise
                fault[0] = False
                # what the logs hold of the record that met the fault is not defined; from here on they are exact again
                mark = len(events)
                want_read = want_send = want_all = S('')
            else:
                if op == 'send':
                    arg = S('p\xe9q')
                    sp.send(arg)
                    sent = arg
                elif op == 'sendline':
                    arg = S('l€')
                    sp.sendline(arg)
                    sent = arg + S(os.linesep)
                elif op == 'sendcontrol':
                    sp.sendcontrol('c')
                    sent = b'\x03' if enc is None else '\x03'
                elif op == 'sendeof':
                    sp.sendeof()
                    sent = veof if enc is None else veof.decode(enc, 'replace')
                else:
                    sp.sendintr()
                    sent = vintr if enc is None else vintr.decode(enc, 'replace')
                want_send += sent
                want_all += sent
        stype = bytes if enc is None else str
        got = {}
        for name in ('logfile', 'logfile_read', 'logfile_send'):
            got[name] = S('')
        last = {}
        for (name, kind, s) in events[mark:]:
            if kind == 'w':
                if last.get(name) == 'w':
                    viol = viol or ('no-flush', '%s: two writes without a flush in between' % name)
                last[name] = 'w'
                if type(s) is not stype:
                    viol = viol or ('type', '%s received %s %r in %s mode' % (name, type(s).__name__, s, task['mode']))
                    continue
                got[name] += s
            else:
                last[name] = 'f'
        for name, l in last.items():
            if l == 'w':
                viol = viol or ('no-flush', '%s: last write not flushed' % name)
        want = {'logfile': want_all, 'logfile_read': want_read, 'logfile_send': want_send}
        obs = {k: got[k] for k in task['subset']}
        if viol is None:
            for name in task['subset']:
                if got[name] != want[name]:
                    viol = (name, '%s contains %r, expected %r' % (name, got[name], want[name]))
                    break
    except E.Hang as h:
        viol = ('hang', str(h))
    except Cut as c:
        viol = ('horizon', str(c))
    except E.HarnessError:
        raise
    except Exception as e:
        viol = ('exception', 'raised %r' % (e,))
    finally:
        if loop is not None:
            try:
                tr_ = getattr(link.sp, 'async_pw_transport', None) if link is not None else None
                if tr_:
                    tr_[1].abort()
                aio.close_loop(loop)
                asyncio.set_event_loop(None)
            except Exception:
                pass
        if link is not None:
            link.finish()
        else:
            env.finish()
    return obs, viol


def eval_interact(obs, viol, mode, pieces):
    enc = None if mode == 'bytes' else mode
    stype = bytes if enc is None else str
    if viol and viol[0] in ('exception', 'hang'):
        return ('interact-' + viol[0], viol[1])
    if viol:
        return None
    empty = stype()
    got = {'logfile': empty, 'logfile_read': empty, 'logfile_send': empty}
    last = {}
    v = None
    for (name, kind, s_) in obs['events']:
        if kind == 'w':
            if last.get(name) == 'w':
                v = v or ('interact-no-flush', '%s: two writes without flush' % name)
            last[name] = 'w'
            if type(s_) is not stype:
                return ('interact-type', 'during interact() %s received %s %r in %s mode' % (name, type(s_).__name__, s_, mode))
            got[name] += s_
        else:
            last[name] = 'f'
    if v:
        return v
    if enc is None:
        want_read, want_send = obs['consumed_out'], obs['to_child']
        clean = True
    else:
        want_read = codecs.getincrementaldecoder(enc)().decode(obs['consumed_out'])
        clean = True
        for p_ in pieces:
            try:
                p_.decode(enc)
            except UnicodeDecodeError:
                clean = False
        want_send = obs['to_child'].decode(enc, 'replace')
    if got['logfile_read'] != want_read:
        return ('interact-read-log', 'logfile_read has %r, the child output delivered was %r' % (got['logfile_read'], want_read))
    if clean and got['logfile_send'] != want_send:
        return ('interact-send-log', 'logfile_send has %r, the child received %r' % (got['logfile_send'], want_send))
    if clean and len(got['logfile']) != len(got['logfile_read']) + len(got['logfile_send']):
        return ('interact-logfile', 'logfile has %r' % (got['logfile'],))
    return None


def run_interact_logs(task, acc, only=None):
    """interact() with all three logs attached (driver of C15)."""
    from mc import c15_interact as c15
    from mc.explore import dfs, Chooser
    mode = task['mode']
    cfg = dict(filt='none', mode=mode, esc='default', poll=False, pending=False)
    if task.get('write_cap'):
        cfg['write_cap'] = task['write_cap']
    if only is not None:
        obs, viol = c15.run_interact(Chooser(only['choices']), cfg, only['pieces'], tuple(only['merge']), only['ending'], logs=True)
        return eval_interact(obs, viol, mode, only['pieces'])
    for t, pieces, mg in c15.scripts('quick', base=False):
        for ending in ('escape', 'exit'):
            def run(ch):
                return c15.run_interact(ch, cfg, pieces, mg, ending, logs=True)
            for ch, (obs, viol) in dfs(run, bound=0):
                acc.execs += 1
                acc.transitions += len(mg) + 1
                acc.nontrivial += 1
                acc.flags['mixed'] += 1
                if task.get('write_cap') and max(len(p_) for p_ in pieces + [b'']) >= 3:
                    acc.flags['interact_piece_needing_several_writes'] += 1
                v = eval_interact(obs, viol, mode, pieces)
                acc.outcomes['interact:%s' % ('viol' if v else 'ok')] += 1
                if v:
                    acc.violation('interact:%s:%s' % (mode, v[0]), 'keys %r merge %r ending %s: %s' % (b''.join(t), mg, ending, v[1]),
                                  dict(task=task, pieces=pieces, merge=list(mg), ending=ending, choices=ch.choices()))
    acc.states += 1


def run_task(task):
    acc = Acc()
    if task.get('kind') == 'interact':
        run_interact_logs(task, acc)
        return acc
    q = task['tier'] == 'quick'
    ops = menu(task['transport'], bool(task.get('aio')))
    maxlen = 3 if q else 4
    for n in range(1, maxlen + 1):
        for seq in itertools.product(ops, repeat=n):
            obs, viol = run_seq(task, seq)
            acc.execs += 1
            acc.transitions += n
            reads = sum(1 for o in seq if o in ('expect_ok', 'expect_no', 'rnb', 'aexpect_ok', 'aexpect_no', 'aexpect_poll'))
            nt = False
            if 0 < reads < n:
                acc.flags['mixed'] += 1
                nt = True
            if reads >= 1 and task['mode'] != 'bytes':
                acc.flags['cut_char'] += 1
                nt = True
            if any(o in ('sendcontrol', 'sendeof', 'sendintr') for o in seq):
                acc.flags['control_logged'] += 1
                nt = True
            if len(task['subset']) == 3:
                acc.flags['all_three_logs'] += 1
            if nt:
                acc.nontrivial += 1
            acc.outcomes['len%d:%s' % (n, 'viol' if viol else 'ok')] += 1
            if viol:
                acc.violation('%s%s:%s:%s:%s' % (task['transport'], '+asyncio' if task.get('aio') else '', task['mode'], seq[-1], viol[0]),
                              'sequence %r logs %r: %s' % (seq, task['subset'], viol[1]), dict(task=task, seq=list(seq)))
    acc.states += 1
    acc.sample(dict(task=task, seq=['expect_no', 'sendline', 'expect_ok', 'sendeof']))
    return acc


def replay(spec):
    from mc.explore import unjson
    spec = unjson(spec)
    task = spec['task']
    if task.get('kind') == 'interact':
        v = run_interact_logs(task, None, only=spec)
        out = {'violation': None}
        if v:
            out['violation'] = {'key': 'interact:%s:%s' % (task['mode'], v[0]), 'msg': v[1]}
        return out
    obs, viol = run_seq(task, tuple(spec['seq']))
    out = {'observation': {k: repr(v) for k, v in obs.items()}, 'violation': None}
    if viol:
        out['violation'] = {'key': '%s%s:%s:%s:%s' % (task['transport'], '+asyncio' if task.get('aio') else '', task['mode'], spec['seq'][-1], viol[0]), 'msg': viol[1]}
    return out
